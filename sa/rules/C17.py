"""C17 RSync makes every target tree equal to the source, minimally (thin -> partial).

Obligations are phrased over value terms and call events along all feasible paths of the
helper-inlined functions (sa/terms.py): which value reaches which position of a message, a
chmod or a comparison -- independent of local names, hoisting, branch order and helper extraction.
"""

from __future__ import annotations

import ast
import itertools

from ..cfg import Oracle
from ..index import AnalysisError, UNKNOWN, norm, unparse
from ..report import Ctx
from ..terms import NONE, Evaluator, cmp_term, const, evaluator, implies, mentions, show, subterms, tv
from ..util import callee_attr

TAGS = {"send", "list_done", "ack", "links", "done"}


def all_paths(ev: Evaluator, limit: int = 40000):
    heads = {n.id for n in ev.cfg.nodes if n.kind in ("test", "for") and isinstance(n.owner, (ast.While, ast.For))}
    return ev.run(back_stops=heads, limit=limit)


def _fs_oracle(repo, fi):
    """file-system calls may fail with OSError (so that `except OSError` arms are live)"""
    fs = {"os.lstat", "os.chmod", "os.utime", "os.unlink", "os.readlink", "os.symlink", "os.makedirs", "os.listdir", "open", "os.path.relpath"}

    def raises(c, f):
        name = unparse(c.func)
        if name in fs:
            return [("ValueError", True)] if name == "os.path.relpath" else [("OSError", True)]
        return None
    return Oracle(repo, fi, precise=True, call_raises=raises)


def _fresh_of(t, label: str) -> bool:
    return isinstance(t, tuple) and t[0] == "fresh" and t[2] == label


def _kind(t) -> str:
    """kind of a structure message term: list / tuple / none / other"""
    if t == NONE:
        return "none"
    if t[0] == "tuple":
        return "tuple"
    if t[0] in ("list",) or (t[0] == "new" and t[2] == "list") or (t[0] == "comp" and t[1] == "list") or (t[0] == "pcall" and t[1] == "list"):
        return "list"
    if t[0] == "bin" and t[1] == "Add" and _kind(t[2]) == "list" and _kind(t[3]) == "list":
        return "list"
    return "other"


def check(ctx: Ctx) -> None:
    repo = ctx.repo
    ctx.decides = ("request tags and structure-message kinds agree between sender and receiver; (mode, mtime, size), the link triple and the "
                   "(relcomponents, checksum) request keep their roles on both sides; a regular file's chmod receives the transmitted mode unmodified; "
                   "relpath() is applied only to absolute link targets and `outside the tree` is decided component-wise; a target that requested no file is still counted done;  deletion is guarded by the delete option; the regular-file decision table; "
                   "mode and mtime are applied to every listed file after the content step; each target gets the complete link list.  Decided over "
                   "value terms along all feasible CFG paths (helpers inlined).")
    ctx.not_decided = "file-system outcomes over generated trees and prior target states."
    f_srv = repo.func("rsync_remote.serve_rsync")
    f_rds = repo.func("rsync_remote.serve_rsync.receive_directory_structure")
    f_send = repo.func("rsync.RSync.send")
    fsi = repo.func("rsync.RSync._send_item")

    ev_rds = evaluator(repo, f_rds, _fs_oracle(repo, f_rds))
    rds_paths = list(all_paths(ev_rds))
    ev_srv = evaluator(repo, f_srv, _fs_oracle(repo, f_srv))
    srv_paths = list(all_paths(ev_srv))
    ev_send = evaluator(repo, f_send)
    send_paths = list(all_paths(ev_send))

    def msg_of(st):
        r = [e.result for e in st.events if e.kind == "call" and e.callee == "channel.receive"]
        return r[0] if r else None

    def loc(st, name):
        """terms a local of serve_rsync may be known by (a symbol inside its nested functions)"""
        return [("sym", name)] + ([st.env[name]] if name in st.env else [])

    def is_entry(E, st) -> bool:
        """E is one recorded (path, entry) pair taken from modifiedfiles: a loop element, or popped from its front"""
        if E[0] == "elem" and E[1] in loc(st, "modifiedfiles"):
            return True
        if E[0] == "fresh":
            mk = [x for x in st.events if x.kind == "call" and x.result == E]
            return bool(mk) and mk[0].recv in loc(st, "modifiedfiles") and (mk[0].attr == "popleft" or (mk[0].attr == "pop" and mk[0].args == (const(0),)))
        return False

    def st_of(st):
        r = [e.result for e in st.events if e.kind == "call" and e.callee == "os.lstat" and not e.raised]
        return r[0] if r else None

    with ctx.obligation("C17.a", "tags") as ob:
        sent: dict[str, tuple] = {}
        for fi, paths in ((f_srv, srv_paths), (f_rds, rds_paths)):
            for (_p, st) in paths:
                for e in st.events:
                    if e.kind == "call" and e.callee == "channel.send" and e.args and e.args[0][0] == "tuple" and len(e.args[0]) >= 2 and e.args[0][1][0] == "const" and isinstance(e.args[0][1][1], str):
                        sent.setdefault(e.args[0][1][1], (fi, e.node))
        handled: dict[str, set] = {}
        for (_p, st) in send_paths:
            tags = [t[3][1] for (t, v) in st.cond if v is True and t[0] == "cmp" and t[1] == "eq" and t[3][0] == "const" and isinstance(t[3][1], str)
                    and t[2][0] == "idx" and t[2][2] == const(0)]
            if tags:
                callees = {e.callee for e in st.events if e.kind == "call" and e.callee and e.callee.startswith("self._") and e.ncond >= 1}
                handled.setdefault(tags[-1], set()).update(callees)
        ob.site(f_send, f_send.node, "request tags", sent=sorted(sent), handled=sorted(handled))
        for t in sorted(set(sent) - set(handled)):
            ob.violation(sent[t][0], sent[t][1], f"the receiver sends request tag {t!r}, which RSync.send does not dispatch: the request is silently dropped and the sync never completes")
        for t in sorted(set(handled) - set(sent)):
            ob.violation(f_send, f_send.node, f"RSync.send dispatches tag {t!r}, which the receiver never sends", construct=f"dispatches {t}")
        if set(sent) != TAGS:
            ob.violation(f_srv, f_srv.node, f"receiver tags {sorted(sent)} differ from the protocol's {sorted(TAGS)}", construct=f"tags {sorted(sent)}")
        want = {"links": "self._process_link", "done": "self._done", "list_done": "self._list_done", "send": "self._send_item"}
        for tag, meth in want.items():
            ok = meth in handled.get(tag, set())
            ob.site(f_send, f_send.node, f"tag {tag!r} -> {meth}", ok=ok)
            if not ok:
                ob.violation(f_send, f_send.node, f"tag {tag!r} is not handled by {meth.split('.')[1]}", construct=f"{tag}->{meth.split('.')[1]}")
        # structure message kinds: list / tuple / None
        kinds = {"list": False, "tuple": False, "none": False}
        for q in ("rsync.RSync._send_directory", "rsync.RSync._send_directory_structure", "rsync.RSync._send_link_structure"):
            fi = repo.func(q)
            evq = evaluator(repo, fi, _fs_oracle(repo, fi))
            for (_p, st) in all_paths(evq):
                for e in st.events:
                    if e.kind == "call" and e.callee == "self._broadcast" and e.args:
                        k = _kind(e.args[0])
                        if k == "other":
                            ob.violation(fi, e.node, f"structure message of unknown kind: {show(e.args[0])}")
                        else:
                            kinds[k] = True
                            if k == "tuple" and len(e.args[0]) != 4:
                                ob.violation(fi, e.node, "a file entry is not broadcast as a 3-tuple")
        rk = {"list": False, "none": False}
        for (_p, st) in rds_paths:
            m = msg_of(st)
            if m is None:
                continue
            for (t, _v) in st.cond:
                if t == ("pcall", "isinstance", (m, ("sym", "list")), ()):
                    rk["list"] = True
                if t == cmp_term("is", m, NONE):
                    rk["none"] = True
        ob.site(f_rds, f_rds.node, "structure kinds (list=dir, tuple=file, None=link)", sender=kinds, receiver_tests=rk)
        if not all(kinds.values()) or not all(rk.values()):
            ob.violation(f_rds, f_rds.node, "sender and receiver disagree on the three structure-message kinds (list / tuple / None)")

    FIELDS = ("st_mode", "st_mtime", "st_size")

    with ctx.obligation("C17.b", "stat-roles") as ob:
        fds = repo.func("rsync.RSync._send_directory_structure")
        evd = evaluator(repo, fds, _fs_oracle(repo, fds))
        ntup = 0
        for (_p, st) in all_paths(evd):
            s0 = st_of(st)
            for e in st.events:
                if e.kind == "call" and e.callee == "self._broadcast" and e.args and e.args[0][0] == "tuple" and s0 is not None and mentions(e.args[0], s0):
                    ntup += 1
                    have = e.args[0][1:]
                    ok = have == tuple(("attr", s0, f) for f in FIELDS)
                    ob.site(fds, e.node, "sender tuple (st_mode, st_mtime, st_size) of the lstat result", fields=[show(x) for x in have], ok=ok)
                    if not ok:
                        ob.violation(fds, e.node, f"the file entry is sent as {[show(x) for x in have]}, not (st_mode, st_mtime, st_size)")
        ob.require(ntup >= 1, "sender's (mode, mtime, size) tuple not found")
        seen_roles = set()
        for (_p, st) in rds_paths:
            m, s0 = msg_of(st), st_of(st)
            if m is None or s0 is None:
                continue
            for (t, _v) in st.cond:
                for x in subterms(t):
                    if x[0] == "cmp" and x[1] in ("eq", "ne"):
                        pair = [x[2], x[3]]
                        mi = [y for y in pair if y[0] == "idx" and y[1] == m and y[2][0] == "const"]
                        sf = [y for y in pair if y[0] == "attr" and y[1] == s0]
                        if len(mi) == 1 and len(sf) == 1:
                            i, fld = mi[0][2][1], sf[0][2]
                            seen_roles.add((i, fld))
                            if (i, fld) not in ((0, "st_mode"), (1, "st_mtime"), (2, "st_size")):
                                ob.violation(f_rds, f_rds.node, f"position {i} of the file entry is compared with st.{fld}: the tuple roles of sender and receiver disagree",
                                             construct=f"entry[{i}] vs {fld}")
        ob.site(f_rds, f_rds.node, "receiver roles", compared=sorted(seen_roles))
        for (i, fld) in ((0, "st_mode"), (1, "st_mtime"), (2, "st_size")):
            if (i, fld) not in seen_roles:
                ob.violation(f_rds, f_rds.node, f"position {i} of the file entry is not compared with st.{fld}: the tuple roles of sender and receiver disagree", construct=f"entry[{i}] never compared with {fld}")
        # second consumer: the content loop over what receive_directory_structure recorded for each file it asked for.  The
        # record may be (path, msg), a flat (path, mode, mtime, size) or any other tuple nesting: what the loop reads from an entry is
        # projected through the recorded tuple and must be the transmitted mode (msg[0]) for chmod and mtime (msg[1]) for utime
        records = []
        for (_p, st) in rds_paths:
            m = msg_of(st)
            for e in st.events:
                if e.kind == "call" and e.callee == "modifiedfiles.append" and e.args:
                    if (e.args[0], m) not in records:
                        records.append((e.args[0], m))
                    if not (e.args[0][0] == "tuple" and m is not None):
                        ob.violation(f_rds, e.node, "the (path, entry) pair is not recorded for the content step")
        if not records:
            ob.violation(f_rds, f_rds.node, "the (path, entry) pair is not recorded for the content step", construct="no record")

        def proj(t, E, R):
            if t == E:
                return R
            if isinstance(t, tuple) and t and t[0] == "idx" and len(t) == 3:
                px = proj(t[1], E, R)
                if isinstance(px, tuple) and px and px[0] == "tuple" and t[2][0] == "const" and isinstance(t[2][1], int) and 0 <= t[2][1] < len(px) - 1:
                    return px[1 + t[2][1]]
                return ("idx", px, t[2])
            if isinstance(t, tuple) and t and t[0] == "tuple":
                return ("tuple",) + tuple(proj(x, E, R) for x in t[1:])
            return t
        nmeta = 0
        for (_p, st) in srv_paths:
            for e in st.events:
                if e.kind == "call" and e.callee in ("os.chmod", "os.utime") and len(e.args) == 2:
                    ents = [x for x in subterms(e.args[0]) if is_entry(x, st)]
                    if not ents:
                        continue
                    E = ents[0]
                    nmeta += 1
                    ok = bool(records)
                    for (R, m) in records:
                        want_ = ("idx", m, const(0)) if e.callee == "os.chmod" else ("tuple", ("idx", m, const(1)), ("idx", m, const(1)))
                        if not (proj(e.args[0], E, R) == ("sym", "path") and proj(e.args[1], E, R) == want_):
                            ok = False
                    ob.site(f_srv, e.node, f"content loop: {e.callee} gets the transmitted {'mode' if e.callee == 'os.chmod' else 'mtime'} of the recorded entry", ok=ok)
                    if not ok:
                        ob.violation(f_srv, e.node, "the content loop does not apply the transmitted (mode -> chmod, mtime -> utime) in their roles")
        if nmeta < 2:
            ob.violation(f_srv, f_srv.node, "the content loop does not apply the transmitted (mode -> chmod, mtime -> utime) in their roles", construct="no chmod/utime on recorded entries")
        # the request ("send", (relcomponents, checksum)) -> _send_item(channel, req[1][0], req[1][1])
        rq = 0
        for (_p, st) in rds_paths:
            for e in st.events:
                if e.kind == "call" and e.callee == "channel.send" and e.args and e.args[0][0] == "tuple" and e.args[0][1] == const("send"):
                    rq += 1
                    body = e.args[0][2] if len(e.args[0]) == 3 else None
                    if not (body is not None and body[0] == "tuple" and len(body) == 3 and body[1] == ("sym", f_rds.params()[1])):
                        ob.violation(f_rds, e.node, "the content request's (path components, checksum) do not reach _send_item in their roles")
        si = 0
        for (_p, st) in send_paths:
            for e in st.events:
                if e.kind == "call" and e.callee == "self._send_item":
                    si += 1
                    a = e.args
                    ok = len(a) == 3 and a[1][0] == "idx" and a[1][2] == const(0) and a[2] == ("idx", a[1][1], const(1)) and a[1][1][0] == "idx" and a[1][1][2] == const(1) \
                        and a[1][1][1][0] == "idx" and a[0] == ("idx", a[1][1][1][1], const(0))
                    if not ok:
                        ob.violation(f_send, e.node, "the content request's (path components, checksum) do not reach _send_item in their roles")
        ps = fsi.params()
        evi = evaluator(repo, fsi, _fs_oracle(repo, fsi))
        item_paths = list(all_paths(evi))
        uses = {"join": False, "cmp": False}
        for (_p, st) in item_paths:
            for e in st.events:
                if e.kind == "call" and e.callee == "os.path.join" and ("star", ("sym", ps[2])) in e.args:
                    uses["join"] = True
            for (t, _v) in st.cond:
                for x in subterms(t):
                    if x[0] == "cmp" and x[1] == "eq" and ("sym", ps[3]) in (x[2], x[3]) and any(mentions(y, ("pcall", "md5", (z,), ())) for y in (x[2], x[3]) for z in subterms(y) if z[0] == "fresh"):
                        uses["cmp"] = True
        ob.site(f_rds, f_rds.node, "request (relcomponents, checksum) reaches _send_item in its roles", requests=rq, dispatches=si, uses=uses)
        if rq == 0 or si == 0 or not all(uses.values()):
            ob.violation(f_rds, f_rds.node, "the content request's (path components, checksum) do not reach _send_item in their roles", construct="request roles")
        # link triple: recorded by _send_link, unpacked by the receiver's link loop (checked with C17.d's symlink roles)
        fl = repo.func("rsync.RSync._send_link")
        evl = evaluator(repo, fl)
        okl = False
        for (_p, st) in all_paths(evl):
            for e in st.events:
                if e.kind == "call" and e.callee == "self._links.append":
                    okl = e.args == (("tuple",) + tuple(("sym", x) for x in fl.params()[1:4]),)
        ob.site(fl, fl.node, "link triple (type, name relative to the tree, target)", ok=okl)
        if not okl:
            ob.violation(fl, fl.node, "the link triple (type, relative name, target) is built/unpacked in different roles")

    with ctx.obligation("C17.c", "mode-exact") as ob:
        n = 0
        seen = set()
        for fi, paths in ((f_srv, srv_paths), (f_rds, rds_paths)):
            for (_p, st) in paths:
                m = msg_of(st) if fi is f_rds else None
                for e in st.events:
                    if not (e.kind == "call" and e.callee == "os.chmod" and len(e.args) == 2):
                        continue
                    cond = st.cond[:e.ncond]
                    M = e.args[1]
                    in_dir = m is not None and (("pcall", "isinstance", (m, ("sym", "list")), ()), True) in cond
                    if fi is f_rds:
                        sent_mode = [("idx", m, const(0))] + [x.result for x in st.events if x.kind == "call" and x.attr == "pop" and x.recv == m and x.args == (const(0),)]
                    else:
                        # what the content loop reads from its entry, projected through what was recorded (C17.b): the transmitted mode msg[0]
                        ents_ = [x for x in subterms(M) if is_entry(x, st)]
                        sent_mode = [M] if ents_ and records and all(proj(M, ents_[0], R_) == ("idx", m_, const(0)) for (R_, m_) in records) else []
                    plain = M in sent_mode
                    ok = plain or (in_dir and M[0] == "bin" and M[1] == "BitOr" and M[2] in sent_mode and M[3] in (const(0o700),))
                    if id(e.node) not in seen:
                        seen.add(id(e.node))
                        n += 1
                        ob.site(fi, e.node, "chmod of a " + ("directory (| 0o700 intended: received trees must stay writable)" if in_dir else "regular file"), mode=show(M))
                    if not ok and not in_dir:
                        ob.violation(fi, e.node, f"a regular file is chmod'ed with `{show(M)}` instead of the transmitted mode: permission bits differ from the source")
                    elif not ok:
                        ob.violation(fi, e.node, f"directory mode `{show(M)}` is neither the transmitted mode nor mode | 0o700")
        ob.require(n >= 3, f"{n} chmod sites (floor 3)")
        # a directory's mode is *applied by chmod* whenever one was transmitted -- also for a directory that was just created:
        # the mode argument of mkdir/makedirs is filtered by the receiver's umask (and drops setgid/sticky bits)
        ndir = 0
        for (_p, st) in rds_paths:
            m = msg_of(st)
            if m is None or (("pcall", "isinstance", (m, ("sym", "list")), ()), True) not in st.cond:
                continue
            modes = [("idx", m, const(0))] + [x.result for x in st.events if x.kind == "call" and x.attr == "pop" and x.recv == m and x.args == (const(0),)]
            if any((mt, False) in st.cond for mt in modes):
                continue   # no mode transmitted: nothing to apply
            if not any(e.kind == "call" and e.attr == "pop" and e.recv == m for e in st.events) and not any(mentions(t, ("idx", m, const(0))) for (t, _v) in st.cond):
                continue   # the path ended before the mode was taken from the message
            ndir += 1
            chm = [e for e in st.events if e.kind == "call" and e.callee == "os.chmod"]
            mk = [e for e in st.events if e.kind == "call" and e.callee in ("os.makedirs", "os.mkdir")]
            if not chm:
                ob.violation(f_rds, (mk[0].node if mk else f_rds.node), "a directory with a transmitted mode is not chmod'ed on this path (the mode given to makedirs is masked by the "
                                                                       "receiver's umask): group/other-writable or sticky source directories arrive with other permissions",
                             construct="directory mode not applied by chmod")
                break
        ob.site(f_rds, f_rds.node, "directory paths with a transmitted mode end in chmod", paths=ndir)

    with ctx.obligation("C17.d", "link-cwd") as ob:
        fls = repo.func("rsync.RSync._send_link_structure")
        evs = evaluator(repo, fls, _fs_oracle(repo, fls))
        nrel = 0
        classes = set()
        for (_p, st) in all_paths(evs):
            lp = [e.result for e in st.events if e.kind == "call" and e.callee == "os.readlink"]
            for e in st.events:
                if e.kind == "call" and e.callee == "os.path.relpath":
                    nrel += 1
                    P = e.args[0] if e.args else None
                    ok = P is not None and (("pcall", "os.path.isabs", (P,), ()), True) in st.cond[:e.ncond]
                    ob.site(fls, e.node, f"relpath({show(P)}, ...) only for absolute link targets", ok=ok)
                    if not ok:
                        ob.violation(fls, e.node, f"os.path.relpath({show(P)}, sourcedir) is evaluated for relative link targets: the result depends on the caller's working directory")
                    if not lp or P != lp[0]:
                        ob.violation(fls, e.node, "the link target is not what os.readlink returns")
                if e.kind == "call" and e.callee == "self._send_link" and len(e.args) == 3:
                    kind, name, tgt = e.args
                    if kind == const("linkbase"):
                        ok = tgt[0] == "pcall" and tgt[1] == "os.path.relpath" and lp and tgt[2][0] == lp[0]
                    elif kind == const("link"):
                        ok = bool(lp) and tgt == lp[0]
                    else:
                        ok = False
                    classes.add(kind[1] if kind[0] == "const" else show(kind))
                    base_ok = name[0] == "slice" and name[1] == ("sym", "path")
                    if not ok or not base_ok:
                        ob.violation(fls, e.node, "links are not classified as ('linkbase', name, path relative to the tree) / ('link', name, verbatim target)")
        # "outside the tree" is a statement about path *components*: `..` itself or a first component `..`; a bare
        # string prefix test with os.pardir also matches entries whose name merely begins with two dots (`..data`)
        def _subterms(t):
            if isinstance(t, tuple):
                yield t
                for x in t:
                    yield from _subterms(x)
        PARDIR = (("sym", "os.pardir"), const(".."), ("sym", "os.path.pardir"))
        nprefix = 0
        flagged = set()
        for (_p, st) in all_paths(evs):
            for e in st.events:
                if e.kind == "call" and e.callee == "self._send_link":
                    cs = [t for (t, _v) in st.cond[:e.ncond]]
                    subs = [x for t in cs for x in _subterms(t)]
                    componentwise = any(x in (("sym", "os.sep"), ("sym", "os.path.sep"), ("sym", "os.altsep")) or (x and x[0] in ("idx", "slice")) for x in subs)
                    for x in subs:
                        if len(x) == 4 and x[0] == "pcall" and isinstance(x[1], tuple) and x[1][:1] == ("meth",) and x[1][2] == "startswith" and x[2]:
                            nprefix += 1
                            if x[2][0] in PARDIR and not componentwise and id(e.node) not in flagged:
                                flagged.add(id(e.node))
                                ob.violation(fls, e.node, f"whether a link target lies outside the tree is decided by the string prefix test `{show(x)}`: an entry of the tree whose name "
                                                          "merely begins with '..' (e.g. `..data`) is taken for a parent reference and its link is not re-rooted onto the target",
                                             construct="startswith(os.pardir) without separator")
        ob.site(fls, fls.node, "prefix tests deciding the classification name a whole component (pardir + sep)", prefix_tests=nprefix)
        ob.require(nrel >= 1, "os.path.relpath call not found")
        ob.site(fls, fls.node, "classification", kinds=sorted(classes))
        if classes != {"linkbase", "link"}:
            ob.violation(fls, fls.node, "links are not classified as ('linkbase', name, path relative to the tree) / ('link', name, verbatim target)", construct=f"classes {sorted(classes)}")
        # receiver side: symlink(src, path) with the roles of the triple
        nsym = 0
        for (_p, st) in srv_paths:
            for e in st.events:
                if e.kind == "call" and e.callee == "os.symlink" and len(e.args) == 2:
                    nsym += 1
                    src, dst = e.args
                    DEST = dst[2][0] if dst[0] == "pcall" and dst[2] and dst[2][0] in loc(st, "destdir") else None
                    ok = dst[0] == "pcall" and dst[1] == "os.path.join" and len(dst[2]) == 2 and DEST is not None and dst[2][1][0] == "idx" and dst[2][1][2] == const(1)
                    if ok:
                        L = dst[2][1][1]
                        isbase = st.known.get(cmp_term("eq", ("idx", L, const(0)), const("linkbase")))
                        islink = st.known.get(cmp_term("eq", ("idx", L, const(0)), const("link")))
                        if isbase is True:
                            ok = src == ("pcall", "os.path.join", (DEST, ("idx", L, const(2))), ())
                        elif isbase is False or islink is True:
                            ok = src == ("idx", L, const(2))
                        else:
                            ok = False
                    ob.site(f_srv, e.node, "links re-created destdir-relative ('linkbase') / verbatim ('link')", ok=ok)
                    if not ok:
                        ob.violation(f_srv, e.node, "the receiver does not re-create links as destdir-relative ('linkbase') / verbatim ('link')")
        if nsym == 0:
            ob.violation(f_srv, f_srv.node, "the receiver does not re-create links as destdir-relative ('linkbase') / verbatim ('link')", construct="no symlink")

    with ctx.obligation("C17.e", "delete-guard") as ob:
        nrm = 0
        for (_p, st) in rds_paths:
            m = msg_of(st)
            for e in st.events:
                if not (e.kind == "call" and e.callee in ("remove", "os.unlink", "shutil.rmtree") and e.args):
                    continue
                others = [x for a_ in e.args for x in subterms(a_) if x[0] == "elem" and _fresh_of(x[1], "os.listdir")]
                if not others:
                    continue
                nrm += 1
                other = others[0]
                cond = st.cond[:e.ncond]
                opt = [x.result for x in st.events if x.kind == "call" and x.callee == "options.get" and x.args[:1] == (const("delete"),)]
                guarded = any((o, True) in cond for o in opt)
                if not guarded:
                    # the option read once into a variable of the enclosing function (`flag = bool(options.get("delete"))`)
                    for (t, v) in cond:
                        if v is True and t[0] == "sym" and "." not in t[1]:
                            defs_ = [n_ for n_ in repo.own_nodes(f_srv) if isinstance(n_, ast.Assign) and len(n_.targets) == 1 and isinstance(n_.targets[0], ast.Name)
                                     and n_.targets[0].id == t[1]]
                            stored_in_nested = any(isinstance(x, ast.Name) and x.id == t[1] and isinstance(x.ctx, ast.Store) for x in ast.walk(f_rds.node))
                            if len(defs_) == 1 and not stored_in_nested:
                                val = defs_[0].value
                                if isinstance(val, ast.Call) and isinstance(val.func, ast.Name) and val.func.id == "bool" and len(val.args) == 1:
                                    val = val.args[0]
                                if isinstance(val, ast.Call) and unparse(val.func) == "options.get" and val.args and repo.fold_in(val.args[0], f_srv) == "delete" \
                                        and (len(val.args) == 1 or repo.fold_in(val.args[1], f_srv) in (None, False)):
                                    guarded = True
                listed_ok = False
                for (t, v) in cond:
                    if t[0] == "cmp" and t[1] == "in" and t[2] == other and v is False:
                        listed_ok = _is_listed(t[3], m, [s_ for (_q, s_) in rds_paths])
                ok = guarded and listed_ok
                ob.site(f_rds, e.node, "unlisted entries removed only with delete=True", ok=ok)
                if not ok:
                    ob.violation(f_rds, e.node, "entries that are not in the source are removed without the delete option (or listed entries are removed)")
        ob.require(nrm >= 1, "removal of unlisted entries not found")

    with ctx.obligation("C17.f", "decision-table") as ob:
        rows: dict[tuple, set] = {}
        example = {}
        for (p, st) in rds_paths:
            if p[-1][0] != ev_rds.cfg.exit.id:
                continue
            m, s0 = msg_of(st), st_of(st)
            if m is None or s0 is None:
                continue
            if (("pcall", "isinstance", (m, ("sym", "list")), ()), False) not in st.cond or (cmp_term("is", m, NONE), False) not in st.cond:
                continue
            A = {"st": s0, "isreg": ("pcall", "stat.S_ISREG", (("attr", s0, "st_mode"),), ()), "mm": ("idx", m, const(0)),
                 "size": cmp_term("eq", ("idx", m, const(2)), ("attr", s0, "st_size")), "mtime": cmp_term("eq", ("idx", m, const(1)), ("attr", s0, "st_mtime")),
                 "mode": cmp_term("eq", ("idx", m, const(0)), ("attr", s0, "st_mode"))}
            req = [e for e in st.events if e.kind == "call" and e.callee == "channel.send" and e.args and e.args[0][0] == "tuple" and e.args[0][1] == const("send")]
            chk = bool(req) and len(req[0].args[0]) == 3 and req[0].args[0][2][0] == "tuple" and len(req[0].args[0][2]) == 3 and req[0].args[0][2][2] != NONE
            chm = any(e.kind == "call" and e.callee == "os.chmod" and e.args[1:] == (A["mm"],) for e in st.events)
            out = (bool(req), chk, chm)
            for (sz, mt, md) in itertools.product((False, True), repeat=3):
                known = {A["st"]: True, A["isreg"]: True, A["mm"]: True, A["size"]: sz, A["mtime"]: mt, A["mode"]: md}
                if all(tv(c, known) in (None, v) for (c, v) in st.cond):
                    rows.setdefault((sz, mt, md), set()).add(out)
        nrows = 0
        for (sz, mt, md) in itertools.product((False, True), repeat=3):
            want_ = (True, False, False) if not sz else ((True, True, False) if not mt else ((False, False, True) if not md else (False, False, False)))
            got = rows.get((sz, mt, md), set())
            case = "size" if not sz else ("mtime" if not mt else ("mode" if not md else "same"))
            nrows += 1
            ob.site(f_rds, f_rds.node, f"existing regular file, size_eq={sz} mtime_eq={mt} mode_eq={md}", outcome=sorted(got), expected="(request, checksum, chmod) = " + str(want_))
            if got != {want_}:
                ob.violation(f_rds, f_rds.node, f"decision table row `{case}` is {sorted(got)}, expected (request, checksum, chmod) = [{want_}]",
                             construct=f"row {case}: {sorted(got)}")
        # sender: None iff checksums match; receiver writes only non-None data
        ps = fsi.params()
        CHK = ("sym", ps[3])
        nsend = 0
        okall = True
        for (p, st) in item_paths:
            if p[-1][0] != evi.cfg.exit.id:
                continue
            snd = [e for e in st.events if e.kind == "call" and e.callee == f"{ps[1]}.send"]
            if len(snd) != 1 or len(snd[0].args) != 1:
                ob.violation(fsi, fsi.node, "_send_item does not answer each request with exactly one data item")
                continue
            nsend += 1
            A_ = snd[0].args[0]
            datas = [e.result for e in st.events if e.kind == "call" and e.attr == "read" and not e.raised]
            if not datas:
                ok = A_ == NONE
            else:
                D = datas[0]
                if st.known.get(cmp_term("is", D, NONE)) is True:
                    continue  # read() cannot return None: infeasible in the real program, harmless either way
                match = ("and", ("not", cmp_term("is", CHK, NONE)), cmp_term("eq", CHK, ("pcall", ("meth", ("pcall", "md5", (D,), ()), "digest"), (), ())))
                if implies(st.cond, match) is True:
                    ok = A_ == NONE
                elif implies(st.cond, ("not", match)) is True:
                    ok = A_ == D
                else:
                    ok = False
            okall = okall and ok
        ob.site(fsi, fsi.node, "sender answers None iff the checksums match (or the file is unreadable)", ok=okall and nsend >= 2)
        if not okall or nsend < 2:
            ob.violation(fsi, fsi.node, "the sender does not answer `None` exactly when the receiver's checksum equals the source's md5")
        okw = False
        for (_p, st) in srv_paths:
            for e in st.events:
                if e.kind == "call" and e.attr == "write" and e.args and _fresh_of(e.args[0], "channel.receive"):
                    okw = (cmp_term("is", e.args[0], NONE), False) in st.cond[:e.ncond]
                    if not okw:
                        ob.violation(f_srv, e.node, "the receiver writes file content although the sender answered 'unchanged' (None)")
        ob.site(f_srv, f_srv.node, "receiver writes only non-None data", ok=okw)
        if not okw:
            ob.violation(f_srv, f_srv.node, "the receiver writes file content although the sender answered 'unchanged' (None)", construct="no guarded write")

    with ctx.obligation("C17.g", "metadata-always") as ob:
        # mode and mtime are applied to every listed file after the content step, also when the content was unchanged
        niter = 0
        heads_srv = {n.id for n in ev_srv.cfg.nodes if n.kind in ("test", "for") and isinstance(n.owner, (ast.While, ast.For))}
        for (p, st) in srv_paths:
            if p[-1][0] not in heads_srv or p[-1][1] == "":
                continue  # not a full trip round a loop
            head = p[-1][0]
            order = [nid for (nid, _l) in p]
            first_visit = order.index(head)
            # the entry of this trip: the loop element, or what is popped from the front of modifiedfiles inside the loop
            Es = [e.value[1] if e.value[0] == "idx" else e.value for e in st.events
                  if e.kind == "assign" and e.nid in order[first_visit:] and ((e.value[0] == "idx" and is_entry(e.value[1], st)) or is_entry(e.value, st))]
            if not Es:
                continue
            E = Es[0]
            niter += 1
            first = next(i for i, e in enumerate(st.events) if e.nid in order[first_visit:] and e.nid != -1 and order.index(e.nid) >= first_visit)
            calls = [e for e in st.events[first:] if e.kind == "call"]
            raised = any(e.raised for e in calls)
            rc = [e for e in calls if e.callee == "channel.receive"]
            ak = [e for e in calls if e.callee == "channel.send" and e.args and e.args[0][0] == "tuple" and e.args[0][1] == const("ack")]
            ut = [e for e in calls if e.callee == "os.utime"]
            ch = [e for e in calls if e.callee == "os.chmod"]
            mode = ("idx", ("idx", E, const(1)), const(0))
            if len(rc) != 1 or len(ak) != 1:
                ob.violation(f_srv, f_srv.node, "each listed file does not take exactly one data item and send exactly one ack")
            if not raised:
                want_ch = st.known.get(mode)
                if not ut or (want_ch is True and not ch):
                    ob.violation(f_srv, f_srv.node, "an iteration of the content loop can be cut short before mode/mtime are applied: a file whose content was unchanged keeps a stale mtime/mode "
                                                    "and is re-checksummed on every later sync", construct="iteration without utime/chmod")
        ob.site(f_srv, f_srv.node, "chmod/utime on every complete trip round the content loop", trips=niter)
        ob.require(niter >= 2, "content loop not found")

    with ctx.obligation("C17.i", "idle-target-totals") as ob:
        # every target sends "list_done" unconditionally, but per-target bookkeeping entries are only created by its
        # "send" requests: the list_done handler must cope with a target that requested nothing (idle re-sync)
        fld = repo.func("rsync.RSync._list_done")
        evl = evaluator(repo, fld)
        TABLE = ("sym", "self._to_send")
        CH = ("sym", fld.params()[1])
        # is the table pre-populated for every target before the request loop?
        pre = False
        for (_p, st) in send_paths:
            for e in st.events:
                if e.kind == "assign" and e.target == "self._to_send":
                    v = e.value
                    pre = (v[0] == "comp" and v[1] == "dictcomp" and v[3] and v[3][0][1] == ("sym", "self._channels")) or \
                          (v[0] == "fresh" and "defaultdict" in str(v[2])) or (v[0] == "pcall" and "fromkeys" in str(v[1]))
        nreads = 0
        for (_p, st) in all_paths(evl):
            reads = set()
            for e in st.events:
                for a in list(e.args) + list(e.kwargs.values()) + ([e.value] if e.value is not None else []):
                    for x in subterms(a):
                        if x == ("idx", TABLE, CH):
                            reads.add(id(e.node))
                            node = e.node
            if not reads:
                continue
            nreads += 1
            guarded = (("cmp", "in", CH, TABLE), True) in st.cond
            ok = guarded or pre
            ob.site(fld, node, "per-target request list read only if the target has one", guarded=guarded, prepopulated=pre)
            if not ok:
                ob.violation(fld, node, "_list_done reads self._to_send[channel], but that entry is only created by the target's first 'send' request: with a progress "
                                        "callback an idle re-sync (a target that requests nothing) fails with KeyError instead of completing",
                             construct="_to_send[channel] unguarded")
        has_cb = any(t == ("sym", "self._callback") for (_p, st) in all_paths(evl) for (t, _v) in st.cond)
        ob.site(fld, fld.node, "list_done handler tolerates targets without requests", unguarded_reads=nreads, reports_to_callback=has_cb)

    with ctx.obligation("C17.h", "links-per-target") as ob:
        # _links is collected once and replayed to every target: it must not be consumed
        muts = []
        for fi0 in repo.cls("RSync").methods.values():
            fi = repo.func(fi0.qualname)
            for x in repo.own_nodes(fi):
                if isinstance(x, ast.Call) and isinstance(x.func, ast.Attribute) and unparse(x.func.value) == "self._links" and x.func.attr in ("pop", "clear", "remove"):
                    muts.append((fi, x))
                if isinstance(x, ast.Delete) and "self._links" in unparse(x):
                    muts.append((fi, x))
                if isinstance(x, ast.Assign) and fi.name != "__init__" and any("self._links" in unparse(t) for t in x.targets):
                    muts.append((fi, x))
        fpl = repo.func("rsync.RSync._process_link")
        ob.site(fpl, None, "the link list is only appended to while scanning and replayed unchanged to each target", consuming_sites=len(muts))
        for fi, x in muts:
            ob.violation(fi, x, "the shared link list is consumed/cleared: a target that asks for its links later receives none of them")
        evp = evaluator(repo, fpl)
        ch = ("sym", fpl.params()[1])
        each = marker = False
        # the completion marker is whatever the receiver's link loop waits for (agreement of the two sides, literal or named)
        f_srv_ = repo.func("rsync_remote.serve_rsync")
        want_markers = set()
        for w in repo.own_nodes(f_srv_):
            if isinstance(w, ast.While) and isinstance(w.test, ast.Compare) and len(w.test.ops) == 1 and isinstance(w.test.ops[0], ast.NotEq):
                v_ = repo.fold_in(w.test.comparators[0], f_srv_)
                if v_ is not UNKNOWN:
                    want_markers.add(v_)
            if isinstance(w, ast.If) and isinstance(w.test, ast.Compare) and len(w.test.ops) == 1 and isinstance(w.test.ops[0], ast.Eq) \
                    and len(w.body) == 1 and isinstance(w.body[0], ast.Break) and not w.orelse:
                v_ = repo.fold_in(w.test.comparators[0], f_srv_)   # while True: msg = channel.receive(); if msg == SENTINEL: break
                if v_ is not UNKNOWN:
                    want_markers.add(v_)
            if isinstance(w, ast.For) and isinstance(w.iter, ast.Call) and isinstance(w.iter.func, ast.Name) and w.iter.func.id == "iter" and len(w.iter.args) == 2:
                v_ = repo.fold_in(w.iter.args[1], f_srv_)   # for msg in iter(channel.receive, SENTINEL)
                if v_ is not UNKNOWN:
                    want_markers.add(v_)

        def marker_value(t):
            if t[0] == "const":
                return t[1]
            if t[0] == "sym" and t[1].split(".")[-2:-1] == ["rsync_remote"]:
                return repo.module("rsync_remote").consts.get(t[1].split(".")[-1], UNKNOWN)
            return UNKNOWN
        for (p, st) in all_paths(evp):
            for e in st.events:
                if e.kind == "call" and e.callee == f"{ch[1]}.send" and e.args:
                    if e.args[0][0] == "elem" and e.args[0][1] == ("sym", "self._links"):
                        each = True
                    mv = marker_value(e.args[0])
                    if mv is not UNKNOWN and mv in want_markers and p[-1][0] == evp.cfg.exit.id:
                        marker = True
        if not each or not marker:
            ob.violation(fpl, fpl.node, "_process_link does not send every recorded link followed by the completion marker")
        fb = repo.func("rsync.RSync._broadcast")
        evb = evaluator(repo, fb)
        okb = False
        for (_p, st) in all_paths(evb):
            for e in st.events:
                if e.kind == "call" and e.attr == "send" and e.recv is not None and e.recv[0] == "elem" and e.recv[1] == ("sym", "self._channels") and e.args == (("sym", fb.params()[1]),):
                    okb = True
        if not okb:
            ob.violation(fb, fb.node, "_broadcast does not send the structure message to every target channel")


def _is_listed(L, m, states) -> bool:
    """L denotes the collection of entry names listed in the directory message m"""
    if m is None:
        return False
    names = [m, ("slice", m, const(1), None)]
    if L in names:
        return True
    if L[0] == "pcall" and L[1] in ("frozenset", "set", "list", "tuple", "dict.fromkeys") and L[2] and L[2][0] in names:
        return True
    if L[0] == "new":
        for st in states:
            for e in st.events:
                if e.kind == "store" and e.recv == L and e.key[0] == "elem" and e.key[1] in names:
                    return True
                if e.kind == "call" and e.attr in ("add", "append") and e.recv == L and e.args and e.args[0][0] == "elem" and e.args[0][1] in names:
                    return True
    if L[0] == "comp" and len(L[3]) == 1 and L[3][0][1] in names:
        return True
    return False
