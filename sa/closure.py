"""Self-containment / name-closure analysis on symtable (and, for the thorough
tier, on compiled-but-never-executed code objects via dis)."""

from __future__ import annotations

import ast
import os
import builtins
import dis
import symtable
import sys
import types
from typing import Iterable

from .index import AnalysisError

BUILTINS = set(dir(builtins)) | {"__name__", "__file__", "__doc__", "__builtins__", "__spec__", "__package__", "__loader__", "__annotations__", "__class__"}
STDLIB = set(sys.stdlib_module_names)


def module_bindings(source: str, filename: str = "<src>") -> set[str]:
    """names bound at module level (assigned, imported, def/class), in any top-level block"""
    top = symtable.symtable(source, filename, "exec")
    out = set()
    for s in top.get_symbols():
        if s.is_assigned() or s.is_imported() or s.is_namespace():
            out.add(s.get_name())
    return out


def global_refs(source: str, filename: str = "<src>") -> dict[str, list[str]]:
    """name -> scopes that reference it as a global (i.e. need a module-level or builtin binding)"""
    top = symtable.symtable(source, filename, "exec")
    refs: dict[str, list[str]] = {}

    def walk(tab: symtable.SymbolTable, path: str) -> None:
        for s in tab.get_symbols():
            if not s.is_referenced():
                continue
            name = s.get_name()
            if tab.get_type() == "module":
                is_glob = True
            else:
                is_glob = s.is_global() or (tab.get_type() == "class" and not s.is_local() and not s.is_free())
                # in a class body an unbound name falls back to globals
                if tab.get_type() == "class" and s.is_local() and not s.is_assigned() and not s.is_namespace() and not s.is_imported():
                    is_glob = True
            if is_glob:
                refs.setdefault(name, []).append(path)
        for ch in tab.get_children():
            walk(ch, f"{path}.{ch.get_name()}" if path else ch.get_name())

    walk(top, "")
    return refs


def unresolved_globals(source: str, extra: Iterable[str] = (), filename: str = "<src>") -> dict[str, list[str]]:
    bound = module_bindings(source, filename) | BUILTINS | set(extra)
    return {n: sc for n, sc in global_refs(source, filename).items() if n not in bound}


def dis_global_names(source: str, filename: str = "<src>") -> set[str]:
    """names loaded via LOAD_GLOBAL / LOAD_NAME in any code object of the
    compiled (never executed) source"""
    code = compile(source, filename, "exec", dont_inherit=True)
    out: set[str] = set()

    def walk(co: types.CodeType) -> None:
        for ins in dis.get_instructions(co):
            if ins.opname in ("LOAD_GLOBAL", "LOAD_NAME"):
                out.add(ins.argval)
        for c in co.co_consts:
            if isinstance(c, types.CodeType):
                walk(c)

    walk(code)
    return out


def dis_import_names(source: str, filename: str = "<src>") -> set[str]:
    code = compile(source, filename, "exec", dont_inherit=True)
    out: set[str] = set()

    def walk(co: types.CodeType) -> None:
        for ins in dis.get_instructions(co):
            if ins.opname == "IMPORT_NAME":
                out.add(ins.argval)
        for c in co.co_consts:
            if isinstance(c, types.CodeType):
                walk(c)

    walk(code)
    return out


def is_type_checking_guarded(tree: ast.Module, node: ast.AST, parents: dict[int, ast.AST]) -> bool:
    p = parents.get(id(node))
    while p is not None:
        if isinstance(p, ast.If) and ast.unparse(p.test) in ("TYPE_CHECKING", "typing.TYPE_CHECKING"):
            return True
        p = parents.get(id(p))
    return False


def fragment_source(parts: list[ast.AST]) -> list[str | None]:
    """Literal text of the arguments of sendexec(io, *sources): constants and
    ``"..." % x`` with holes replaced by placeholders; None for non-literals."""
    out: list[str | None] = []
    for a in parts:
        if isinstance(a, ast.Constant) and isinstance(a.value, str):
            out.append(a.value)
        elif isinstance(a, ast.BinOp) and isinstance(a.op, ast.Mod) and isinstance(a.left, ast.Constant) and isinstance(a.left.value, str):
            out.append(a.left.value.replace("%r", "'X'").replace("'%s", "'X").replace("%s", "X"))
        elif isinstance(a, ast.JoinedStr):
            # f"...{x!r}..." / f"...'{x}-worker'": the same holes
            txt = ""
            for v in a.values:
                if isinstance(v, ast.Constant) and isinstance(v.value, str):
                    txt += v.value
                elif isinstance(v, ast.FormattedValue) and v.format_spec is None:
                    txt += "'X'" if v.conversion == ord("r") else "X"
                else:
                    txt = None  # type: ignore[assignment]
                    break
            out.append(txt)
        elif isinstance(a, ast.Call) and isinstance(a.func, ast.Attribute) and a.func.attr == "format" and isinstance(a.func.value, ast.Constant) \
                and isinstance(a.func.value.value, str) and not a.keywords:
            import re as _re
            out.append(_re.sub(r"\{\d*!r\}", "'X'", _re.sub(r"\{\d*(!s)?\}", "X", a.func.value.value).replace("{{", "{").replace("}}", "}")))
        else:
            out.append(None)
    return out


# --------------------------------------------------------------------------- stdlib of an older interpreter, read as source
def oldest_stdlib_root() -> tuple[str, str] | None:
    """(version, directory) of the oldest CPython standard library present as *source* on this machine, other than the
    running one -- read with ast, never imported or executed"""
    import glob
    import re
    import sys
    cands = []
    for d in glob.glob("/usr/lib/python3.*") + glob.glob("/usr/local/lib/python3.*"):
        m = re.search(r"python3\.(\d+)$", d)
        if m and os.path.exists(os.path.join(d, "os.py")):
            cands.append((int(m.group(1)), d))
    cands = [c for c in cands if c[0] < sys.version_info[1]]
    if not cands:
        return None
    v, d = min(cands)
    return f"3.{v}", d


def stdlib_exports(root: str, modname: str, _depth: int = 0) -> set[str] | None:
    """names `from modname import X` can deliver according to the module's source under `root`; None when that cannot be
    read off the source (extension module, dynamic namespace)"""
    base = os.path.join(root, *modname.split("."))
    path = base + ".py" if os.path.exists(base + ".py") else os.path.join(base, "__init__.py")
    if not os.path.exists(path) or _depth > 3:
        return None
    try:
        with open(path, encoding="utf-8") as f:
            tree = ast.parse(f.read())
    except (OSError, SyntaxError, UnicodeDecodeError):
        return None
    names: set[str] = set()
    if os.path.isdir(base):
        names |= {os.path.splitext(n)[0] for n in os.listdir(base) if n.endswith(".py") or os.path.isdir(os.path.join(base, n))}

    def visit(body) -> bool:
        for st in body:
            if isinstance(st, (ast.FunctionDef, ast.AsyncFunctionDef, ast.ClassDef)):
                names.add(st.name)
            elif isinstance(st, ast.Assign):
                for t in st.targets:
                    names.update(x.id for x in ast.walk(t) if isinstance(x, ast.Name))
            elif isinstance(st, (ast.AnnAssign, ast.AugAssign)) and isinstance(st.target, ast.Name):
                names.add(st.target.id)
            elif isinstance(st, ast.Import):
                names.update((a.asname or a.name.split(".")[0]) for a in st.names)
            elif isinstance(st, ast.ImportFrom):
                for a in st.names:
                    if a.name == "*":
                        if st.level:
                            return False
                        sub = stdlib_exports(root, st.module or "", _depth + 1)
                        if sub is None:
                            return False
                        alls = stdlib_all(root, st.module or "")
                        names.update(alls if alls is not None else {n for n in sub if not n.startswith("_")})
                    else:
                        names.add(a.asname or a.name)
            elif isinstance(st, (ast.If, ast.Try, ast.With, ast.For, ast.While)):
                for fld in ("body", "orelse", "finalbody"):
                    if not visit(getattr(st, fld, []) or []):
                        return False
                for h in getattr(st, "handlers", []) or []:
                    if not visit(h.body):
                        return False
            elif isinstance(st, ast.Expr) and isinstance(st.value, ast.Call) and isinstance(st.value.func, ast.Attribute) \
                    and st.value.func.attr in ("update", "setdefault") and "globals" in ast.unparse(st.value.func.value):
                return False  # namespace built dynamically
        return True
    if not visit(tree.body):
        return None
    if any(isinstance(n, ast.FunctionDef) and n.name == "__getattr__" for n in tree.body):
        return None
    return names


def stdlib_all(root: str, modname: str) -> set[str] | None:
    base = os.path.join(root, *modname.split("."))
    path = base + ".py" if os.path.exists(base + ".py") else os.path.join(base, "__init__.py")
    try:
        with open(path, encoding="utf-8") as f:
            tree = ast.parse(f.read())
    except (OSError, SyntaxError, UnicodeDecodeError):
        return None
    out = None
    for st in tree.body:
        if isinstance(st, ast.Assign) and any(isinstance(t, ast.Name) and t.id == "__all__" for t in st.targets):
            try:
                out = set(ast.literal_eval(st.value))
            except Exception:
                return None
        elif isinstance(st, ast.AugAssign) and isinstance(st.target, ast.Name) and st.target.id == "__all__":
            try:
                out = (out or set()) | set(ast.literal_eval(st.value))
            except Exception:
                return None
    return out
