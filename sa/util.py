"""Shared helpers for the rule modules: call matching, alias normalisation,
lexical lock regions, inter-procedural entry lock-sets, 3-valued path facts."""

from __future__ import annotations

import ast
import copy
from typing import Any, Iterable, Iterator

from .cfg import CFG, Node, Oracle, build_cfg, own_exprs
from .index import AnalysisError, FuncInfo, Repo, norm, unparse, walk_no_nested


# ------------------------------------------------------------------ calls
def callee_attr(call: ast.Call) -> str:
    f = call.func
    if isinstance(f, ast.Attribute):
        return f.attr
    if isinstance(f, ast.Name):
        return f.id
    return ""


def calls_in_node(n: Node) -> list[ast.Call]:
    return [x for x in own_exprs(n) if isinstance(x, ast.Call)]


def calls_under(node: ast.AST) -> list[ast.Call]:
    return [x for x in walk_no_nested(node) if isinstance(x, ast.Call)]


def calls_to(repo: Repo, fi: FuncInfo, qualnames: Iterable[str]) -> list[ast.Call]:
    """Call expressions in fi that resolve to any of the given functions."""
    qs = set(qualnames)
    out = []
    for c in repo.calls_in(fi):
        if any(t.qualname in qs for t in repo.resolve_call(c, fi)):
            out.append(c)
    return out


def call_resolves_to(repo: Repo, fi: FuncInfo, call: ast.Call, qualnames: Iterable[str]) -> bool:
    qs = set(qualnames)
    return any(t.qualname in qs for t in repo.resolve_call(call, fi))


def arg(call: ast.Call, pos: int, name: str | None = None) -> ast.AST | None:
    if name is not None:
        for k in call.keywords:
            if k.arg == name:
                return k.value
    if pos is not None and 0 <= pos < len(call.args):
        a = call.args[pos]
        if not isinstance(a, ast.Starred):
            return a
    return None


def bind_args(repo, call: ast.Call, qualname: str) -> dict[str, ast.AST]:
    """the call's arguments bound to the parameters of the repository function `qualname` (self dropped for methods),
    omitted parameters mapped to their default expressions: positional, keyword and defaulted spellings coincide"""
    fi = repo.func(qualname)
    a = fi.node.args
    names = [x.arg for x in a.posonlyargs + a.args]
    defaults = dict(zip(names[len(names) - len(a.defaults):], a.defaults))
    if fi.cls is not None and names and names[0] in ("self", "cls"):
        names = names[1:]
    out: dict[str, ast.AST] = {}
    for n_, v in zip(names, call.args):
        if isinstance(v, ast.Starred):
            break
        out[n_] = v
    for k in call.keywords:
        if k.arg is not None:
            out[k.arg] = k.value
    for n_ in names:
        if n_ not in out and n_ in defaults:
            out[n_] = defaults[n_]
    return out


def node_has_call(n: Node, pred) -> bool:
    return any(pred(c) for c in calls_in_node(n))


def cfg_nodes_with_call(cfg: CFG, pred) -> list[Node]:
    live = cfg.live()
    return [n for n in cfg.nodes if n.id in live and n.ast is not None and node_has_call(n, pred)]


# --------------------------------------------------------- alias handling
class _Subst(ast.NodeTransformer):
    def __init__(self, mapping: dict[str, ast.AST]) -> None:
        self.mapping = mapping

    def visit_Name(self, node: ast.Name) -> ast.AST:
        if isinstance(node.ctx, ast.Load) and node.id in self.mapping:
            return copy.deepcopy(self.mapping[node.id])
        return node


def local_aliases(repo: Repo, fi: FuncInfo) -> dict[str, ast.AST]:
    """Single-assignment locals bound to attribute chains / names
    (``ready = self._primary_thread_task_ready``)."""
    out: dict[str, ast.AST] = {}
    params = set(fi.params())
    names = set()
    for n in repo.own_nodes(fi):
        if isinstance(n, ast.Name) and isinstance(n.ctx, ast.Store):
            names.add(n.id)
    for name in names:
        if name in params:
            continue
        al = repo.local_alias(name, fi)
        if isinstance(al, ast.Attribute) and _is_chain(al) and not _chain_mutable(repo, al):
            out[name] = al
    # resolve alias-of-alias
    for _ in range(3):
        for k, v in list(out.items()):
            out[k] = _Subst({a: b for a, b in out.items() if a != k}).visit(copy.deepcopy(v))
    return out


def mutable_attrs(repo: Repo) -> set[str]:
    """attribute names stored to outside ``__init__`` anywhere in the repo: a
    local copy of such a field is a snapshot, not an alias."""
    cached = getattr(repo, "_mutable_attrs", None)
    if cached is not None:
        return cached
    out: set[str] = set()
    for fi in repo.funcs.values():
        if fi.name == "__init__":
            continue
        for n in repo.own_nodes(fi):
            if isinstance(n, ast.Attribute) and isinstance(n.ctx, (ast.Store, ast.Del)):
                out.add(n.attr)
    repo._mutable_attrs = out  # type: ignore[attr-defined]
    return out


def _chain_mutable(repo: Repo, e: ast.AST) -> bool:
    m = mutable_attrs(repo)
    while isinstance(e, ast.Attribute):
        if e.attr in m:
            return True
        e = e.value
    return False


def _is_chain(e: ast.AST) -> bool:
    while isinstance(e, ast.Attribute):
        e = e.value
    return isinstance(e, ast.Name)


def expand(repo: Repo, fi: FuncInfo, e: ast.AST | None, depth: int = 4) -> ast.AST | None:
    """`e` with every single-assignment local replaced by its defining expression (recursively):
    matching is then independent of how intermediate values were named or hoisted.  For *matching*
    only -- snapshot semantics of mutable fields are deliberately ignored here."""
    if e is None or depth <= 0:
        return e
    mapping: dict[str, ast.AST] = {}
    params = set(fi.params())
    for n in ast.walk(e):
        if isinstance(n, ast.Name) and isinstance(n.ctx, ast.Load) and n.id not in params and n.id not in mapping:
            al = repo.local_alias(n.id, fi)
            if al is not None and not (isinstance(al, ast.Constant) and al.value is None) and not any(isinstance(x, ast.Name) and x.id == n.id for x in ast.walk(al)):
                mapping[n.id] = al
    if not mapping:
        return e
    return expand(repo, fi, _Subst(mapping).visit(copy.deepcopy(e)), depth - 1)


def xtext(repo: Repo, fi: FuncInfo, e: ast.AST | None) -> str:
    return norm(expand(repo, fi, e)) if e is not None else ""


def nexpr(repo: Repo, fi: FuncInfo, e: ast.AST, aliases: dict[str, ast.AST] | None = None) -> str:
    """Normalised expression text with local aliases substituted."""
    if aliases is None:
        aliases = local_aliases(repo, fi)
    e2 = _Subst(aliases).visit(copy.deepcopy(e))
    return norm(e2)


# ------------------------------------------------------------------ locks
def lock_identity(repo: Repo, fi: FuncInfo, e: ast.AST) -> str | None:
    """'Class.attr' for an expression denoting a lock object, else None."""
    if isinstance(e, ast.Name):
        al = repo.local_alias(e.id, fi)
        if al is not None and not isinstance(al, ast.Constant):
            return lock_identity(repo, fi, al)
        return None
    if isinstance(e, ast.Attribute):
        t = repo.type_of(e, fi)
        if t != "Lock":
            return None
        owner = repo.type_of(e.value, fi)
        if owner is None:
            return None
        # attribute declared on which class in the MRO?
        ci = repo.classes.get(owner)
        if ci is not None:
            for c in repo.mro(ci):
                if e.attr in c.field_types:
                    return f"{c.name}.{e.attr}"
        return f"{owner}.{e.attr}"
    return None


def lexical_locks(repo: Repo, fi: FuncInfo, node: ast.AST) -> set[str]:
    """Locks held at `node` by enclosing ``with L:`` blocks or an enclosing
    ``try/finally L.release()`` preceded by ``L.acquire()`` (same function)."""
    held: set[str] = set()
    child = node
    for anc in repo.ancestors(node):
        if anc is fi.node:
            break
        if isinstance(anc, (ast.FunctionDef, ast.Lambda, ast.AsyncFunctionDef)):
            break
        if isinstance(anc, ast.With) and any(child is s for s in anc.body):
            for it in anc.items:
                lid = lock_identity(repo, fi, it.context_expr)
                if lid:
                    held.add(lid)
        if isinstance(anc, ast.Try) and anc.finalbody and any(child is s for s in anc.body):
            for st in anc.finalbody:
                for c in calls_under(st):
                    if callee_attr(c) == "release" and isinstance(c.func, ast.Attribute):
                        lid = lock_identity(repo, fi, c.func.value)
                        if lid and _acquired_before(repo, fi, anc, lid):
                            held.add(lid)
        child = anc
    return held


def _acquired_before(repo: Repo, fi: FuncInfo, trystmt: ast.Try, lid: str) -> bool:
    parent = repo.parent(trystmt)
    for fld in ("body", "orelse", "finalbody"):
        body = getattr(parent, fld, None)
        if isinstance(body, list) and trystmt in body:
            idx = body.index(trystmt)
            for st in body[:idx]:
                for c in calls_under(st):
                    if callee_attr(c) == "acquire" and isinstance(c.func, ast.Attribute) \
                            and lock_identity(repo, fi, c.func.value) == lid:
                        return True
    return False


def enclosing_lock_with(repo: Repo, fi: FuncInfo, node: ast.AST, lockid: str) -> ast.With | None:
    for a in repo.ancestors(node):
        if a is fi.node:
            break
        if isinstance(a, ast.With) and any(lock_identity(repo, fi, it.context_expr) == lockid for it in a.items):
            return a
        if isinstance(a, ast.Try) and a.finalbody and _acquired_before(repo, fi, a, lockid) and any(
                callee_attr(c) == "release" and isinstance(c.func, ast.Attribute) and lock_identity(repo, fi, c.func.value) == lockid
                for st in a.finalbody for c in calls_under(st)):
            return a
    return None


def lock_regions(repo: Repo, fi: FuncInfo) -> list[tuple[str, ast.AST]]:
    out = []
    for n in repo.own_nodes(fi):
        if isinstance(n, ast.With):
            for it in n.items:
                lid = lock_identity(repo, fi, it.context_expr)
                if lid:
                    out.append((lid, n))
        if isinstance(n, ast.Try) and n.finalbody:
            for st in n.finalbody:
                for c in calls_under(st):
                    if callee_attr(c) == "release" and isinstance(c.func, ast.Attribute):
                        lid = lock_identity(repo, fi, c.func.value)
                        if lid and _acquired_before(repo, fi, n, lid):
                            out.append((lid, n))
    return out


class LockSets:
    """entry(f) = intersection over resolved call sites of (entry(caller) | held at site);
    thread entries / public API / functions without in-repo callers start empty."""

    def __init__(self, repo: Repo, entries: Iterable[str] = ()) -> None:
        self.repo = repo
        self.entry: dict[str, set[str] | None] = {}
        repo.callgraph()
        forced_empty = set(entries)
        TOP = None
        for q in repo.funcs:
            self.entry[q] = TOP
        changed = True
        rounds = 0
        while changed and rounds < 30:
            changed = False
            rounds += 1
            for q, fi in repo.funcs.items():
                sites = repo.callsites(q)
                if q in forced_empty or not sites or not fi.name.startswith("_") or fi.name.startswith("__"):
                    new: set[str] | None = set()
                else:
                    new = TOP
                    for (caller, call) in sites:
                        ce = self.entry[caller.qualname]
                        if ce is TOP:
                            continue
                        here = ce | lexical_locks(repo, caller, call)
                        new = here if new is TOP else (new & here)
                if new != self.entry[q]:
                    if new is TOP:
                        continue
                    self.entry[q] = new
                    changed = True
        for q in self.entry:
            if self.entry[q] is None:
                self.entry[q] = set()

    def held(self, fi: FuncInfo, node: ast.AST) -> set[str]:
        p: FuncInfo | None = fi
        held = set(lexical_locks(self.repo, fi, node))
        held |= self.entry.get(fi.qualname) or set()
        return held


# ------------------------------------------------------ 3-valued path facts
class Facts:
    """Partial truth assignment over normalised atoms with propagation."""

    def __init__(self, repo: Repo, fi: FuncInfo, aliases: dict[str, ast.AST] | None = None, expand_locals: bool = False) -> None:
        self.repo = repo
        self.fi = fi
        self.aliases = local_aliases(repo, fi) if aliases is None else aliases
        self.env: dict[str, bool] = {}
        self.consistent = True
        #: match on value origins: every single-assignment local is replaced by its defining expression
        #: (only where a snapshot of a mutable field may be identified with the field -- pure matching)
        self.expand_locals = expand_locals

    def clone(self) -> "Facts":
        f = Facts(self.repo, self.fi, self.aliases, self.expand_locals)
        f.env = dict(self.env)
        f.consistent = self.consistent
        return f

    def atom(self, e: ast.AST) -> tuple[str, bool]:
        """(key, negated)"""
        e = self._x(e)
        if isinstance(e, ast.Compare) and len(e.ops) == 1:
            l = nexpr(self.repo, self.fi, e.left, self.aliases)
            r = nexpr(self.repo, self.fi, e.comparators[0], self.aliases)
            op = e.ops[0]
            if isinstance(op, ast.Is):
                return (f"{l} is {r}", False)
            if isinstance(op, ast.IsNot):
                return (f"{l} is {r}", True)
            if isinstance(op, ast.Eq):
                return (f"{l} == {r}", False)
            if isinstance(op, ast.NotEq):
                return (f"{l} == {r}", True)
            if isinstance(op, ast.In):
                return (f"{l} in {r}", False)
            if isinstance(op, ast.NotIn):
                return (f"{l} in {r}", True)
        return (nexpr(self.repo, self.fi, e, self.aliases), False)

    def _x(self, e: ast.AST) -> ast.AST:
        if not self.expand_locals:
            return e
        x = expand(self.repo, self.fi, e)
        return x if x is not None else e

    def eval(self, e: ast.AST) -> bool | None:
        e = self._x(e)
        if isinstance(e, ast.Constant):
            return bool(e.value)
        if isinstance(e, ast.UnaryOp) and isinstance(e.op, ast.Not):
            v = self.eval(e.operand)
            return None if v is None else (not v)
        if isinstance(e, ast.BoolOp):
            vals = [self.eval(v) for v in e.values]
            if isinstance(e.op, ast.And):
                if any(v is False for v in vals):
                    return False
                if all(v is True for v in vals):
                    return True
                return None
            if any(v is True for v in vals):
                return True
            if all(v is False for v in vals):
                return False
            return None
        k, neg = self.atom(e)
        if k in self.env:
            return self.env[k] != neg
        return None

    def assume(self, e: ast.AST, value: bool) -> None:
        e = self._x(e)
        cur = self.eval(e)
        if cur is not None:
            if cur != value:
                self.consistent = False
            return
        if isinstance(e, ast.UnaryOp) and isinstance(e.op, ast.Not):
            self.assume(e.operand, not value)
            return
        if isinstance(e, ast.BoolOp):
            is_and = isinstance(e.op, ast.And)
            if is_and == value:
                # and=True / or=False: every operand decided
                for v in e.values:
                    self.assume(v, value)
                return
            # and=False / or=True: unit propagation
            unknown = [v for v in e.values if self.eval(v) is None]
            if len(unknown) == 1:
                self.assume(unknown[0], value)
            else:
                self.env[nexpr(self.repo, self.fi, e, self.aliases)] = value
            return
        k, neg = self.atom(e)
        self.env[k] = value != neg

    def assume_src(self, src: str, value: bool) -> None:
        self.assume(ast.parse(src, mode="eval").body, value)

    def value_src(self, src: str) -> bool | None:
        return self.eval(ast.parse(src, mode="eval").body)

    def set_atom(self, key: str, value: bool) -> None:
        if key in self.env and self.env[key] != value:
            self.consistent = False
        self.env[key] = value

    def get(self, key: str) -> bool | None:
        return self.env.get(key)


def reaching_values(cfg: CFG, nid: int, name: str) -> list[ast.AST]:
    """values of the assignments to local `name` that can reach node nid (backward search over the CFG,
    stopping at each assignment)"""
    out: list[ast.AST] = []
    seen: set[int] = set()
    work = [p for (p, _l) in cfg.pred[nid]]
    while work:
        n = work.pop()
        if n in seen:
            continue
        seen.add(n)
        nd = cfg.nodes[n]
        a = nd.ast
        hit = False
        if nd.kind == "stmt" and isinstance(a, (ast.Assign, ast.AnnAssign)) and getattr(a, "value", None) is not None:
            for t in (a.targets if isinstance(a, ast.Assign) else [a.target]):
                if isinstance(t, ast.Name) and t.id == name:
                    out.append(a.value)
                    hit = True
        if not hit:
            work.extend(p for (p, _l) in cfg.pred[n])
    return out


def value_at(repo: Repo, fi: FuncInfo, cfg: CFG, nid: int, e: ast.AST) -> ast.AST:
    """`e` with a Name replaced by its unique reaching definition at node nid (then origin-expanded)"""
    if isinstance(e, ast.Name):
        vals = reaching_values(cfg, nid, e.id)
        if len(vals) == 1:
            return expand(repo, fi, vals[0]) or vals[0]
        if vals and len({unparse(v) for v in vals}) == 1:
            return expand(repo, fi, vals[0]) or vals[0]
    x = expand(repo, fi, e)
    return x if x is not None else e


def guard_facts(repo: Repo, fi: FuncInfo, cfg: CFG, nid: int, expand_locals: bool = True) -> Facts:
    """facts implied by the branch decisions that dominate node nid (origin-expanded by default)"""
    f = Facts(repo, fi, {}, expand_locals=expand_locals)
    for (t, lab) in cfg.guards(nid):
        if t.kind == "test":
            f.assume(t.ast, lab == "true")
    return f


def feasible_paths(repo: Repo, fi: FuncInfo, cfg: CFG, base: Facts | None = None, limit: int = 512,
                   kill_on_store: bool = True) -> Iterator[tuple[list[tuple[int, str]], Facts]]:
    """Acyclic paths entry->exit with the facts their branch decisions imply;
    infeasible (self-contradictory) paths are dropped.  Facts about a name or
    attribute are forgotten when the path stores to it."""
    for path in cfg.paths(cfg.entry.id, limit=limit):
        facts = base.clone() if base is not None else Facts(repo, fi)
        ok = True
        for i, (nid, _lab) in enumerate(path):
            n = cfg.nodes[nid]
            if n.kind == "test" and i + 1 < len(path):
                nxt_label = path[i + 1][1]
                if nxt_label in ("true", "false"):
                    facts.assume(n.ast, nxt_label == "true")
                    if not facts.consistent:
                        ok = False
                        break
            elif kill_on_store and n.kind == "stmt" and n.ast is not None:
                _kill(repo, fi, facts, n.ast)
        if ok:
            yield path, facts


def path_facts(repo: Repo, fi: FuncInfo, cfg: CFG, path: list[tuple[int, str]], base: Facts | None = None,
               expand_locals: bool = False) -> Facts | None:
    """facts implied by the branch decisions along one path; boolean/None constants assigned to locals are
    tracked (flag variables), other stores forget what was known about the name.  None = path infeasible."""
    facts = base.clone() if base is not None else Facts(repo, fi, {}, expand_locals=expand_locals)
    for i, (nid, _lab) in enumerate(path):
        n = cfg.nodes[nid]
        if n.kind == "test" and i + 1 < len(path):
            lab = path[i + 1][1]
            if lab in ("true", "false"):
                facts.assume(n.ast, lab == "true")
                if not facts.consistent:
                    return None
        elif n.kind == "stmt" and isinstance(n.ast, (ast.Assign, ast.AnnAssign, ast.AugAssign)):
            tgts = n.ast.targets if isinstance(n.ast, ast.Assign) else [n.ast.target]
            val = getattr(n.ast, "value", None)
            for t in tgts:
                if isinstance(t, ast.Name):
                    for k in list(facts.env):
                        if _mentions(k, t.id):
                            del facts.env[k]
                    if isinstance(n.ast, (ast.Assign, ast.AnnAssign)) and isinstance(val, ast.Constant) and (isinstance(val.value, bool) or val.value is None):
                        facts.env[t.id] = bool(val.value)
                        if val.value is None:
                            facts.env[f"{t.id} is None"] = True
                    elif isinstance(n.ast, ast.Assign) and isinstance(val, ast.Name) and val.id in facts.env:
                        facts.env[t.id] = facts.env[val.id]
    return facts


def must_pass_feasible(repo: Repo, fi: FuncInfo, cfg: CFG, starts, exits, through: set[int], through_edges: set = frozenset(),
                       limit: int = 6000) -> list[tuple[int, str]] | None:
    """like CFG.must_pass, but an offending path only counts if it is feasible w.r.t. boolean flag
    variables and repeated tests (restructurings with `done = True` flags / one-trip wrappers)."""
    exits = set(exits)
    if cfg.must_pass(starts, exits, through, through_edges) is None:
        return None
    for s in starts:
        if s in through:
            continue
        for path in cfg.paths_between(s, exits, limit=limit, avoid=through):
            if path[-1][0] not in exits:
                continue
            if any((a, b, lab) in through_edges for (a, _l), (b, lab) in zip(path, path[1:])):
                continue
            if path_facts(repo, fi, cfg, path) is not None:
                return path
    return None


def _kill(repo: Repo, fi: FuncInfo, facts: Facts, st: ast.AST) -> None:
    targets = []
    if isinstance(st, ast.Assign):
        targets = st.targets
    elif isinstance(st, (ast.AugAssign, ast.AnnAssign)):
        targets = [st.target]
    for t in targets:
        for x in ast.walk(t):
            if isinstance(x, (ast.Name, ast.Attribute)) and isinstance(getattr(x, "ctx", None), ast.Store):
                txt = nexpr(repo, fi, x, facts.aliases)
                if isinstance(x, ast.Name) and x.id in facts.aliases:
                    continue
                for k in list(facts.env):
                    if _mentions(k, txt):
                        del facts.env[k]


def _mentions(key: str, name: str) -> bool:
    import re

    return re.search(r"(?<![\w.])" + re.escape(name) + r"(?![\w])", key) is not None


def const_value(repo: Repo, fi: FuncInfo, e: ast.AST | None) -> Any:
    if e is None:
        return None
    return repo.fold_in(e, fi)
