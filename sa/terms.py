"""Path-sensitive value-term propagation over the statement CFG.

A forward dataflow analysis whose abstract values are *terms* (hashable tuples)
describing where a value came from: parameters and globals are symbols, pure
operations build structure (slices, sums, tuples, comparisons), every effectful
call yields a fresh symbol and is logged as an event in evaluation order.  The
analysis is run along the acyclic paths of a function's CFG (helpers already
inlined by `flatten`); loop-carried variables are havocked at the loop head, so
one traversal of a loop body stands for an arbitrary iteration.  Branch
decisions are collected as the path condition; contradictory paths are dropped
(3-valued evaluation, no solver: implication questions are answered by
enumerating the truth assignments of the at most a dozen atoms involved).

Rules phrase their obligations over terms and events ("the value returned is
the slice [:n] of the same value whose slice [n:] is kept"), which makes them
independent of how intermediate values are named, hoisted, or which statement
form a branch or a loop takes.
"""

from __future__ import annotations

import ast
import itertools
from typing import Any, Callable, Iterable, Iterator

from .cfg import CFG, Node
from .index import AnalysisError, FuncInfo, Repo, UNKNOWN, norm, unparse

Term = tuple

PURE_FUNCS = {"len", "str", "repr", "int", "bool", "float", "tuple", "list", "set", "frozenset", "dict", "sorted", "min", "max",
              "isinstance", "issubclass", "getattr", "hasattr", "vars", "type", "abs", "bytes", "md5", "enumerate", "zip", "reversed",
              "callable", "id", "ord", "chr", "hash", "partial"}
PURE_METHODS = {"find", "rfind", "index", "partition", "rpartition", "split", "rsplit", "startswith", "endswith", "join", "strip",
                "lstrip", "rstrip", "lower", "upper", "keys", "items", "values", "digest", "hexdigest", "encode", "decode", "format",
                "count", "copy", "replace", "isdigit", "splitlines", "title", "removeprefix", "removesuffix", "isalnum", "isalpha", "isidentifier",
                "casefold", "zfill", "ljust", "rjust", "center", "expandtabs", "hex"}
PURE_PREFIXES = ("stat.", "os.path.", "posixpath.", "struct.calcsize", "shlex.")


def const(v: Any) -> Term:
    try:
        hash(v)
    except TypeError:
        v = repr(v)
    return ("const", v)


NONE = ("const", None)


def is_const(t: Term, v: Any = UNKNOWN) -> bool:
    return isinstance(t, tuple) and t and t[0] == "const" and (v is UNKNOWN or (t[1] == v and type(t[1]) is type(v)))


def subterms(t: Any) -> Iterator[Term]:
    if isinstance(t, tuple):
        if t and isinstance(t[0], str):
            yield t
        for x in t:
            yield from subterms(x)


def mentions(t: Term, sub: Term) -> bool:
    return any(x == sub for x in subterms(t))


def show(t: Any) -> str:
    """compact human-readable rendering of a term (for reports)"""
    if not isinstance(t, tuple) or not t:
        return repr(t)
    tag = t[0]
    if not isinstance(tag, str):
        return "(" + ", ".join(show(x) for x in t) + ")"
    if tag == "const":
        return repr(t[1])
    if tag in ("sym", "bound"):
        return str(t[1])
    if tag == "fresh":
        return f"{t[2]}()#{t[1]}"
    if tag == "havoc":
        return f"{t[2]}@loop"
    if tag == "elem":
        return f"elem({show(t[1])})"
    if tag == "slice":
        return f"{show(t[1])}[{'' if t[2] is None else show(t[2])}:{'' if t[3] is None else show(t[3])}]"
    if tag == "idx":
        return f"{show(t[1])}[{show(t[2])}]"
    if tag == "bin":
        return f"({show(t[2])} {t[1]} {show(t[3])})"
    if tag == "cmp":
        return f"({show(t[2])} {t[1]} {show(t[3])})"
    if tag in ("and", "or"):
        return "(" + f" {tag} ".join(show(x) for x in t[1:]) + ")"
    if tag == "not":
        return f"not {show(t[1])}"
    if tag in ("tuple", "list", "set"):
        return tag[0] + "(" + ", ".join(show(x) for x in t[1:]) + ")"
    if tag == "pcall":
        return f"{t[1] if isinstance(t[1], str) else show(t[1])}(" + ", ".join(show(x) for x in t[2]) + ")"
    if tag == "attr":
        return f"{show(t[1])}.{t[2]}"
    return tag + "(" + ", ".join(show(x) if isinstance(x, tuple) else str(x) for x in t[1:]) + ")"


class Event:
    __slots__ = ("kind", "node", "nid", "callee", "attr", "recv", "args", "kwargs", "result", "target", "old", "value", "ncond", "raised", "key", "held")

    def __init__(self, kind: str, node: ast.AST | None, nid: int, **kw: Any) -> None:
        self.kind = kind
        self.node = node
        self.nid = nid
        self.callee = self.attr = self.recv = self.result = self.target = self.old = self.value = self.key = None
        self.args: tuple = ()
        self.kwargs: dict[str, Term] = {}
        self.ncond = 0
        self.raised = False
        self.held: tuple = ()
        for k, v in kw.items():
            setattr(self, k, v)

    def arg(self, pos: int, name: str | None = None) -> Term | None:
        if pos is not None and pos < len(self.args):
            return self.args[pos]
        if name is not None:
            return self.kwargs.get(name)
        return None

    def __repr__(self) -> str:
        if self.kind == "call":
            return f"<call {self.callee or ('<' + show(self.recv) + '>.' + str(self.attr) if self.attr else show(self.recv))}({', '.join(show(a) for a in self.args)}){' !' if self.raised else ''}>"
        if self.kind in ("assign", "store"):
            return f"<{self.kind} {self.target if self.kind == 'assign' else show(self.recv)} := {show(self.value)}>"
        return f"<{self.kind} {show(self.value) if self.value is not None else ''}>"


class State:
    def __init__(self) -> None:
        self.env: dict[str, Term] = {}
        self.cond: list[tuple[Term, bool]] = []
        self.known: dict[Term, bool] = {}
        self.events: list[Event] = []
        self.ret: Term | None = None
        self.nfresh = 0
        self.feasible = True
        self.defs: dict[str, ast.AST] = {}
        self._no_havoc = False
        #: context managers / locks currently held (terms), innermost last; recorded per condition and per event
        self.held: tuple = ()
        self.cond_held: list[tuple] = []
        #: locks held when a volatile attribute was read: number of the ("read", k, key) term -> held
        self.read_held: dict[int, tuple] = {}

    def clone(self) -> "State":
        s = State()
        s.env = dict(self.env)
        s.cond = list(self.cond)
        s.known = dict(self.known)
        s.events = list(self.events)
        s.ret = self.ret
        s.nfresh = self.nfresh
        s.feasible = self.feasible
        s.defs = dict(self.defs)
        s.held = self.held
        s.cond_held = list(self.cond_held)
        s.read_held = dict(self.read_held)
        return s

    # ---- queries
    def calls(self, pred: Callable[[Event], bool] | str | None = None) -> list[Event]:
        out = []
        for e in self.events:
            if e.kind != "call":
                continue
            if pred is None or (isinstance(pred, str) and (e.attr == pred or e.callee == pred)) or (callable(pred) and pred(e)):
                out.append(e)
        return out

    def cond_at(self, ev: Event) -> list[tuple[Term, bool]]:
        return self.cond[:ev.ncond]


def tv(t: Term, known: dict[Term, bool]) -> bool | None:
    """3-valued truth of a term under the decided atoms"""
    tag = t[0]
    if tag == "const":
        return bool(t[1])
    if tag == "not":
        v = tv(t[1], known)
        return None if v is None else not v
    if tag in ("and", "or"):
        vals = [tv(x, known) for x in t[1:]]
        if tag == "and":
            return False if any(v is False for v in vals) else (True if all(v is True for v in vals) else None)
        return True if any(v is True for v in vals) else (False if all(v is False for v in vals) else None)
    if tag == "cmp":
        op, a, b = t[1], t[2], t[3]
        if op in ("isnot", "ne", "notin"):
            v = tv(("cmp", {"isnot": "is", "ne": "eq", "notin": "in"}[op], a, b), known)
            return None if v is None else not v
        if a == b and op in ("is", "eq", "le", "ge"):
            return True
        if a == b and op in ("lt", "gt"):
            return False
        if a[0] == "const" and b[0] == "const":
            try:
                if op == "is":
                    return a[1] is b[1] or (a[1] == b[1] and type(a[1]) is type(b[1]) and not isinstance(a[1], (tuple, float)))
                if op == "eq":
                    return a[1] == b[1] and (type(a[1]) is type(b[1]) or not isinstance(a[1], bool) and not isinstance(b[1], bool))
                if op == "lt":
                    return a[1] < b[1]
                if op == "le":
                    return a[1] <= b[1]
                if op == "in":
                    return a[1] in b[1]
            except TypeError:
                return None
        if op == "le" and not (a[0] == "const" and b[0] == "const"):
            # order duality (total orders: ints, lengths):  a <= b  is the negation of  b < a
            if t in known:
                return known[t]
            v = tv(("cmp", "lt", b, a), known)
            return None if v is None else not v
        if op == "lt" and ("cmp", "le", b, a) in known and t not in known:
            return not known[("cmp", "le", b, a)]
        if op in ("is", "eq") and (is_const(b, None) or is_const(a, None)):
            other = a if is_const(b, None) else b
            if other[0] in ("tuple", "list", "set", "dict", "fstr", "func", "lambda", "comp", "bin", "new") or (other[0] == "const" and other[1] is not None):
                return False
            if other[0] == "fresh" and str(other[2]).rsplit(".", 1)[-1][:1].isupper():
                return False  # the result of a constructor call (CapWords callee) is an object, never None
            if known.get(other) is True:
                return False  # a value already found truthy is not None
    if tag == "bin" and t[1] == "Add":
        # sequence concatenation (or a sum of sizes): non-empty as soon as one operand is, empty only if both are
        va, vb = tv(t[2], known), tv(t[3], known)
        if va is True or vb is True:
            return True
        if va is False and vb is False:
            return False
        return known.get(t)
    if t in known:
        return known[t]
    if known.get(("cmp", "is", t, NONE)) is True:
        return False  # None is falsy
    if tag in ("tuple", "list", "set") and len(t) > 1 and not any(isinstance(x, tuple) and x and x[0] == "star" for x in t[1:]):
        return True
    if tag in ("func", "lambda"):
        return True
    return None


def atoms_of(t: Term) -> set[Term]:
    tag = t[0]
    if tag == "const":
        return set()
    if tag == "not":
        return atoms_of(t[1])
    if tag in ("and", "or"):
        out: set[Term] = set()
        for x in t[1:]:
            out |= atoms_of(x)
        return out
    if tag == "cmp" and t[1] in ("isnot", "ne", "notin"):
        return {("cmp", {"isnot": "is", "ne": "eq", "notin": "in"}[t[1]], t[2], t[3])}
    if tag == "cmp" and t[1] == "le" and not (t[2][0] == "const" and t[3][0] == "const"):
        return {("cmp", "lt", t[3], t[2])}
    if tag == "bin" and t[1] == "Add":
        return atoms_of(t[2]) | atoms_of(t[3])
    return {t}


def implies(cond: Iterable[tuple[Term, bool]], formula: Term, extra: Callable[[dict[Term, bool]], bool] | None = None, maxatoms: int = 14) -> bool | None:
    """does the path condition imply `formula`?  Decided by enumerating the truth assignments of the atoms
    involved (None when there are too many).  `extra(assignment)` may reject assignments that contradict
    domain knowledge (e.g. `x == -1` and `x >= 0`)."""
    cond = list(cond)
    ats: set[Term] = atoms_of(formula)
    for (c, _v) in cond:
        ats |= atoms_of(c)
    ats_l = sorted(ats, key=repr)
    if len(ats_l) > maxatoms:
        return None
    any_model = False
    for bits in itertools.product((False, True), repeat=len(ats_l)):
        known = dict(zip(ats_l, bits))
        if any(tv(c, known) is not v for (c, v) in cond):
            continue
        if extra is not None and not extra(known):
            continue
        any_model = True
        if tv(formula, known) is not True:
            return False
    return True if any_model else True


_CMP = {ast.Is: "is", ast.IsNot: "isnot", ast.Eq: "eq", ast.NotEq: "ne", ast.Lt: "lt", ast.LtE: "le", ast.Gt: "gt", ast.GtE: "ge",
        ast.In: "in", ast.NotIn: "notin"}


def cmp_term(op: str, a: Term, b: Term) -> Term:
    """comparison term in canonical operand order (symmetric operators: constant on the right, else sorted)"""
    if op in ("eq", "ne", "is", "isnot"):
        if a[0] == "const" and b[0] != "const":
            a, b = b, a
        elif a[0] != "const" and b[0] != "const" and repr(a) > repr(b):
            a, b = b, a
    elif op in ("gt", "ge"):
        # a > b  ==  b < a
        op, a, b = {"gt": "lt", "ge": "le"}[op], b, a
    return ("cmp", op, a, b)


def cmp_const(t: Term) -> tuple[str, Term, Any] | None:
    """(op, X, c) for a comparison of a term X with a constant c, read from X's side (`0 <= X` -> ('ge', X, 0))"""
    if t[0] != "cmp":
        return None
    op, a, b = t[1], t[2], t[3]
    if b[0] == "const" and a[0] != "const":
        return (op, a, b[1])
    if a[0] == "const" and b[0] != "const" and op in ("lt", "le"):
        return ({"lt": "gt", "le": "ge"}[op], b, a[1])
    return None


class Evaluator:
    """term propagation along CFG paths of one (flattened) function"""

    def __init__(self, repo: Repo, fi: FuncInfo, cfg: CFG | None, pure: Callable[[str | None, str | None], bool | None] | None = None,
                 havoc: bool = True, rewrite: Callable[[Term], Term] | None = None, fold_consts: bool = True) -> None:
        self.repo = repo
        self.fi = fi
        self.cfg = cfg
        self.pure_hook = pure
        self.havoc = havoc
        self.rewrite = rewrite
        self.fold_consts = fold_consts
        self._loop_stores: dict[int, set[str]] = {}
        #: attribute keys ("self._x") another thread may change between two reads: every read is a value of its own
        self.volatile: set[str] = set()
        #: loop exits are explored precisely: zero iterations (pre-state, no havoc) and "after a last iteration"
        #: (havoc, one trip through the body, back to the head, exit) -- instead of one havocked exit
        self.peel = True

    # ------------------------------------------------------------ purity
    def is_pure(self, callee: str | None, attr: str | None) -> bool:
        if self.pure_hook is not None:
            v = self.pure_hook(callee, attr)
            if v is not None:
                return v
        if callee is not None:
            if callee in PURE_FUNCS or callee.startswith(PURE_PREFIXES):
                return True
        if attr is not None and attr in PURE_METHODS:
            return True
        return False

    # ------------------------------------------------------------- terms
    def mk(self, t: Term) -> Term:
        if t[0] == "pcall" and t[1] == "len" and len(t[2]) == 1 and t[2][0][0] == "const" and isinstance(t[2][0][1], (str, bytes, tuple)):
            t = const(len(t[2][0][1]))
        elif t[0] == "cmp" and t[2][0] == "const" and t[3][0] == "const" and tv(t, {}) is not None:
            t = const(tv(t, {}))
        elif t[0] == "bin" and t[2][0] == "const" and t[3][0] == "const" and isinstance(t[2][1], int) and isinstance(t[3][1], int) and t[1] in ("Add", "Sub", "Mult"):
            t = const({"Add": t[2][1] + t[3][1], "Sub": t[2][1] - t[3][1], "Mult": t[2][1] * t[3][1]}[t[1]])
        return self.rewrite(t) if self.rewrite is not None else t

    def key_of(self, e: ast.AST, st: State) -> str | None:
        """environment key of an lvalue/attribute chain (base names replaced by the symbol they alias)"""
        if isinstance(e, ast.Name):
            return e.id
        if isinstance(e, ast.Attribute):
            b = self.term(e.value, st, log=False)
            if b[0] == "sym":
                return f"{b[1]}.{e.attr}"
            return None
        return None

    def term(self, e: ast.AST | None, st: State, log: bool = True, nid: int = -1) -> Term:
        if e is None:
            return NONE
        m = getattr(self, "t_" + type(e).__name__, None)
        if m is None:
            return ("opaque", norm(e))
        return self.mk(m(e, st, log, nid))

    def t_Constant(self, e, st, log, nid):
        return const(e.value)

    def closure_term(self, name: str, st: State) -> Term | None:
        """value of a free variable of a nested function: a nested def or a single-assignment display/constant of an
        enclosing function (dispatch tables, constants); anything computed stays a symbol"""
        p = self.fi.parent
        while p is not None:
            q = f"{p.qualname}.{name}"
            if self.repo.has_func(q):
                st.defs.setdefault(name, self.repo._func(q).node)
                return ("func", name)
            if name in p.params():
                return None
            al = self.repo.local_alias(name, p)
            if al is not None:
                if isinstance(al, (ast.Dict, ast.Tuple, ast.List, ast.Constant, ast.Set)) and not (isinstance(al, ast.Constant) and al.value is None) \
                        and not (isinstance(al, (ast.List, ast.Dict, ast.Set)) and not (getattr(al, "elts", None) or getattr(al, "keys", None))):
                    return Evaluator(self.repo, p, None).term(al, st, False)
                return None
            p = p.parent
        return None

    def t_Name(self, e, st, log, nid):
        if e.id in st.env:
            return st.env[e.id]
        if e.id not in self.fi.params() and self.repo.has_func(f"{self.fi.qualname}.{e.id}"):
            st.defs.setdefault(e.id, self.repo._func(f"{self.fi.qualname}.{e.id}").node)
            return ("func", e.id)
        if self.fi.parent is not None and e.id not in self.fi.params():
            ct = self.closure_term(e.id, st)
            if ct is not None:
                return ct
        if self.fold_consts and e.id not in self.fi.params():
            v = self.repo.fold_in(e, self.fi)
            if v is not UNKNOWN and isinstance(v, (int, str, bytes, bool, float, type(None))):
                return const(v)
        return ("sym", e.id)

    def t_Attribute(self, e, st, log, nid):
        b = self.term(e.value, st, log, nid)
        if b[0] == "sym":
            k = f"{b[1]}.{e.attr}"
            if k in self.volatile and log:
                st.nfresh += 1
                st.read_held[st.nfresh] = st.held
                return ("read", st.nfresh, k)
            if k in st.env:
                return st.env[k]
            if self.fold_consts:
                if not k.startswith("self."):
                    v = self.repo.fold_in(e, self.fi)
                    if v is not UNKNOWN and isinstance(v, (int, str, bytes, bool, float)):
                        return const(v)
                elif b[1] == "self":
                    v = self._class_const(e.attr)
                    if v is not UNKNOWN:
                        return const(v)
            return ("sym", k)
        return ("attr", b, e.attr)

    def _class_const(self, attr: str) -> Any:
        """value of a class-level constant read through self (never stored as an instance attribute anywhere)"""
        from .util import mutable_attrs

        p = self.fi
        while p is not None and p.cls is None:
            p = p.parent
        if p is None:
            return UNKNOWN
        ci = p.cls
        if attr in mutable_attrs(self.repo):
            return UNKNOWN
        init = ci.methods.get("__init__")
        if init is not None and any(isinstance(x, ast.Attribute) and x.attr == attr and isinstance(x.ctx, ast.Store) for x in ast.walk(init.node)):
            return UNKNOWN
        seen = set()
        while ci is not None and ci.name not in seen:
            seen.add(ci.name)
            if attr in ci.consts and isinstance(ci.consts[attr], (int, str, bytes, bool, float)):
                return ci.consts[attr]
            bases = [self.repo.classes.get(b) for b in getattr(ci, "bases", [])]
            ci = next((b for b in bases if b is not None), None)
        return UNKNOWN

    def t_Tuple(self, e, st, log, nid):
        out: list = []
        for x in e.elts:
            t = self.term(x, st, log, nid)
            if t[0] == "star" and t[1][0] in ("tuple", "list") and not any(y[0] == "star" for y in t[1][1:]):
                out.extend(t[1][1:])  # (*(a, b), c) == (a, b, c)
            else:
                out.append(t)
        return ("tuple",) + tuple(out)

    def t_List(self, e, st, log, nid):
        if not e.elts and log:
            return ("new", f"{getattr(e, 'lineno', 0)}:{getattr(e, 'col_offset', 0)}", "list")
        return ("list",) + tuple(self.term(x, st, log, nid) for x in e.elts)

    def t_Set(self, e, st, log, nid):
        return ("set",) + tuple(self.term(x, st, log, nid) for x in e.elts)

    def t_Dict(self, e, st, log, nid):
        if not e.keys and log:
            return ("new", f"{getattr(e, 'lineno', 0)}:{getattr(e, 'col_offset', 0)}", "dict")
        return ("dict",) + tuple((self.term(k, st, log, nid) if k is not None else ("star",), self.term(v, st, log, nid)) for k, v in zip(e.keys, e.values))

    def t_Starred(self, e, st, log, nid):
        return ("star", self.term(e.value, st, log, nid))

    def t_Subscript(self, e, st, log, nid):
        b = self.term(e.value, st, log, nid)
        s = e.slice
        if isinstance(s, ast.Slice):
            lo = self.term(s.lower, st, log, nid) if s.lower is not None else None
            hi = self.term(s.upper, st, log, nid) if s.upper is not None else None
            if s.step is not None:
                return ("slice3", b, lo, hi, self.term(s.step, st, log, nid))
            return ("slice", b, lo, hi)
        i = self.term(s, st, log, nid)
        if b[0] in ("tuple", "list") and i[0] == "const" and isinstance(i[1], int) and not any(x[0] == "star" for x in b[1:]) and -len(b) + 1 <= i[1] < len(b) - 1:
            return b[1:][i[1]]
        if b[0] == "dict" and i[0] == "const":
            for (k, v) in b[1:]:
                if k == i:
                    return v
        return ("idx", b, i)

    def t_BinOp(self, e, st, log, nid):
        return ("bin", type(e.op).__name__, self.term(e.left, st, log, nid), self.term(e.right, st, log, nid))

    def t_UnaryOp(self, e, st, log, nid):
        v = self.term(e.operand, st, log, nid)
        if isinstance(e.op, ast.Not):
            return ("not", v)
        if isinstance(e.op, ast.USub) and v[0] == "const" and isinstance(v[1], (int, float)):
            return const(-v[1])
        return ("un", type(e.op).__name__, v)

    def t_BoolOp(self, e, st, log, nid):
        tag = "and" if isinstance(e.op, ast.And) else "or"
        return (tag,) + tuple(self.term(v, st, log, nid) for v in e.values)

    def t_Compare(self, e, st, log, nid):
        parts = []
        left = self.term(e.left, st, log, nid)
        for op, c in zip(e.ops, e.comparators):
            r = self.term(c, st, log, nid)
            parts.append(cmp_term(_CMP.get(type(op), type(op).__name__), left, r))
            left = r
        return parts[0] if len(parts) == 1 else ("and",) + tuple(parts)

    def t_IfExp(self, e, st, log, nid):
        c = self.term(e.test, st, log, nid)
        v = tv(c, st.known)
        if v is True:
            return self.term(e.body, st, log, nid)
        if v is False:
            return self.term(e.orelse, st, log, nid)
        return ("ite", c, self.term(e.body, st, log, nid), self.term(e.orelse, st, log, nid))

    def t_JoinedStr(self, e, st, log, nid):
        return ("fstr",) + tuple(self.term(v, st, log, nid) for v in e.values)

    def t_FormattedValue(self, e, st, log, nid):
        return ("fmt", self.term(e.value, st, log, nid), e.conversion)

    def t_Lambda(self, e, st, log, nid):
        key = f"<lambda@{e.lineno}:{e.col_offset}>"
        st.defs[key] = e
        return ("lambda", key, norm(e))

    def t_NamedExpr(self, e, st, log, nid):
        v = self.term(e.value, st, log, nid)
        if log:
            st.env[e.target.id] = v
        return v

    def _comp(self, e, st, log, nid, kind):
        sub = st.clone()
        gens = []
        for g in e.generators:
            it = self.term(g.iter, sub, log, nid)
            for x in ast.walk(g.target):
                if isinstance(x, ast.Name):
                    sub.env[x.id] = ("bound", x.id)
            gens.append((norm(g.target), it, tuple(self.term(c, sub, log, nid) for c in g.ifs)))
        if kind == "dictcomp":
            elt = ("kv", self.term(e.key, sub, log, nid), self.term(e.value, sub, log, nid))
        else:
            elt = self.term(e.elt, sub, log, nid)
        if log:
            st.events.extend(x for x in sub.events[len(st.events):])
            st.nfresh = sub.nfresh
        for k_, v_ in sub.defs.items():
            st.defs.setdefault(k_, v_)
        return ("comp", kind, elt, tuple(gens))

    def t_ListComp(self, e, st, log, nid):
        return self._comp(e, st, log, nid, "list")

    def t_SetComp(self, e, st, log, nid):
        return self._comp(e, st, log, nid, "set")

    def t_GeneratorExp(self, e, st, log, nid):
        return self._comp(e, st, log, nid, "gen")

    def t_DictComp(self, e, st, log, nid):
        return self._comp(e, st, log, nid, "dictcomp")

    def t_Call(self, e, st, log, nid):
        f = e.func
        recv = None
        attr = None
        callee: str | None = None
        if isinstance(f, ast.Name):
            ft = st.env.get(f.id)
            callee = f.id
            if ft is not None and ft[0] in ("sym",):
                callee = ft[1]
            elif ft is not None and ft[0] in ("func", "lambda"):
                callee = ft[1]
            elif ft is not None:
                recv = ft
        elif isinstance(f, ast.Attribute):
            recv = self.term(f.value, st, log, nid)
            attr = f.attr
            callee = f"{recv[1]}.{attr}" if recv[0] == "sym" else None
        else:
            recv = self.term(f, st, log, nid)
        args_l: list = []
        for a in e.args:
            t_ = self.term(a, st, log, nid)
            if t_[0] == "star" and t_[1][0] in ("tuple", "list") and not any(y[0] == "star" for y in t_[1][1:]):
                args_l.extend(t_[1][1:])  # f(*(a, b)) == f(a, b)
            else:
                args_l.append(t_)
        args = tuple(args_l)
        kwargs = {k.arg if k.arg is not None else "**": self.term(k.value, st, log, nid) for k in e.keywords}
        if callee == "cast" and len(args) == 2:
            return args[1]
        if attr == "get" and recv is not None and recv[0] == "dict" and 1 <= len(args) <= 2 and not kwargs:
            return ("dictget", recv, args[0], args[1] if len(args) == 2 else NONE)
        if callee in ("set", "list", "dict") and not args and not kwargs and log:
            return ("new", f"{getattr(e, 'lineno', 0)}:{getattr(e, 'col_offset', 0)}", callee)
        if self.is_pure(callee, attr):
            res: Term = ("pcall", callee if callee is not None else (("meth", recv, attr) if attr else recv), args, tuple(sorted(kwargs.items())))
        else:
            st.nfresh += 1
            res = ("fresh", st.nfresh, callee if callee is not None else (f"<{show(recv)}>.{attr}" if attr else show(recv)))
        res = self.mk(res)
        if log:
            st.events.append(Event("call", e, nid, callee=callee, attr=attr, recv=recv, args=args, kwargs=kwargs, result=res, ncond=len(st.cond)))
        return res

    # -------------------------------------------------------- conditions
    def add_cond(self, st: State, t: Term, truth: bool) -> None:
        tag = t[0]
        if tag == "not":
            return self.add_cond(st, t[1], not truth)
        if tag == "cmp" and t[1] in ("isnot", "ne", "notin"):
            return self.add_cond(st, ("cmp", {"isnot": "is", "ne": "eq", "notin": "in"}[t[1]], t[2], t[3]), not truth)
        cur = tv(t, st.known)
        if cur is not None:
            if cur != truth:
                st.feasible = False
            st.cond.append((t, truth))
            st.cond_held.append(st.held)
            return
        if (tag == "and" and truth) or (tag == "or" and not truth):
            for x in t[1:]:
                self.add_cond(st, x, truth)
            return
        st.cond.append((t, truth))
        st.cond_held.append(st.held)
        if tag in ("and", "or"):
            unknown = [x for x in t[1:] if tv(x, st.known) is None]
            if len(unknown) == 1:
                self.add_cond(st, unknown[0], truth)
        else:
            st.known[t] = truth
            # order duality on the same pair of terms:  a <= b  is the negation of  b < a
            if tag == "cmp" and t[1] in ("le", "lt"):
                dual = ("cmp", "lt" if t[1] == "le" else "le", t[3], t[2])
                if st.known.get(dual) is truth:
                    st.feasible = False
                st.known.setdefault(dual, not truth)
        # re-check the compound conditions recorded so far
        for (c, v) in st.cond:
            cv = tv(c, st.known)
            if cv is not None and cv != v:
                st.feasible = False

    # -------------------------------------------------------- statements
    def assign(self, st: State, target: ast.AST, value: Term, node: ast.AST, nid: int) -> None:
        if isinstance(target, (ast.Tuple, ast.List)):
            n = len(target.elts)
            if value[0] in ("tuple", "list") and len(value) - 1 == n and not any(x[0] == "star" for x in value[1:]) and not any(isinstance(x, ast.Starred) for x in target.elts):
                for tg, v in zip(target.elts, value[1:]):
                    self.assign(st, tg, v, node, nid)
                return
            for i, tg in enumerate(target.elts):
                if isinstance(tg, ast.Starred):
                    self.assign(st, tg.value, ("slice", value, const(i), None), node, nid)
                else:
                    self.assign(st, tg, self.mk(("idx", value, const(i))), node, nid)
            return
        if isinstance(target, ast.Subscript):
            recv = self.term(target.value, st, True, nid)
            s = target.slice
            if isinstance(s, ast.Slice):
                key: Term = ("slicekey", self.term(s.lower, st, True, nid) if s.lower is not None else None, self.term(s.upper, st, True, nid) if s.upper is not None else None)
            else:
                key = self.term(s, st, True, nid)
            st.events.append(Event("store", node, nid, recv=recv, key=key, value=value, ncond=len(st.cond), target=norm(target.value)))
            return
        k = self.key_of(target, st)
        if k is None:
            st.events.append(Event("assign", node, nid, target=norm(target), old=None, value=value, ncond=len(st.cond)))
            return
        old = st.env.get(k)
        if old is None and isinstance(target, ast.Attribute):
            old = ("sym", k)
        st.events.append(Event("assign", node, nid, target=k, old=old, value=value, ncond=len(st.cond)))
        st.env[k] = value
        # a store to x.f invalidates nothing else: distinct keys are assumed not to alias

    def loop_stores(self, head: Node) -> set[str]:
        if head.id in self._loop_stores:
            return self._loop_stores[head.id]
        out: set[str] = set()
        owner = head.owner
        body = list(getattr(owner, "body", [])) if owner is not None else []
        for s in body:
            for x in ast.walk(s):
                if isinstance(x, (ast.Name, ast.Attribute)) and isinstance(getattr(x, "ctx", None), (ast.Store, ast.Del)):
                    out.add(unparse(x))
                elif isinstance(x, ast.AugAssign):
                    out.add(unparse(x.target))
                elif isinstance(x, ast.NamedExpr):
                    out.add(x.target.id)
        self._loop_stores[head.id] = out
        return out

    def has_back_edge(self, head: Node) -> bool:
        """false for one-trip wrappers (`while True: ...; break` produced by helper inlining): nothing is loop-carried"""
        cache = self.__dict__.setdefault("_back", {})
        if head.id not in cache:
            body = self.cfg.reach([m for (m, l) in self.cfg.succ[head.id] if l == "true"], removed={head.id})
            cache[head.id] = any(p in body for (p, _l) in self.cfg.pred[head.id])
        return cache[head.id]

    def exec_fork(self, st: State, n: Node, label: str) -> list[State]:
        """exec_node, forking the state on an undecided top-level conditional expression
        (`x = a if c else b`, `return a if c else b`) so that each outcome is a path of its own"""
        a = n.ast
        if n.kind == "stmt" and isinstance(a, (ast.Assign, ast.AnnAssign, ast.Return)) and isinstance(getattr(a, "value", None), ast.IfExp) and not label.startswith("exc:"):
            import copy as _copy

            c = self.term(a.value.test, st, True, n.id)
            v = tv(c, st.known)
            outs: list[State] = []
            for truth in ([v] if v is not None else [True, False]):
                s2 = st.clone() if v is None else st
                if v is None:
                    self.add_cond(s2, c, truth)
                    if not s2.feasible:
                        continue
                a2 = _copy.copy(a)
                a2.value = a.value.body if truth else a.value.orelse
                n2 = Node(n.id, n.kind, a2, n.owner, n.copy)
                outs.extend(self.exec_fork(s2, n2, label))
            return outs
        self.exec_node(st, n, label)
        return [st]

    def exec_node(self, st: State, n: Node, label: str) -> None:
        """apply the effect of leaving node n over an edge labelled `label`"""
        cfg = self.cfg
        exc = label.startswith("exc:")
        a = n.ast
        k = n.kind
        if k in ("entry", "return", "raise", "finally", "finally_end", "withexit"):
            if k == "withexit":
                st.events.append(Event("withexit", n.owner, n.id, ncond=len(st.cond), held=st.held))
                nitems = len(n.owner.items) if isinstance(n.owner, ast.With) else 1
                st.held = st.held[:max(0, len(st.held) - nitems)]
            return
        if k in ("test", "for") and self.havoc and isinstance(n.owner, (ast.While, ast.For)) and self.has_back_edge(n) \
                and not getattr(st, "_no_havoc", False) and (label == "true" or not self.peel):
            for key in sorted(self.loop_stores(n)):
                base = key.split(".")[0]
                full = key
                if "." in key:
                    # attribute chains are keyed by the symbol their base aliases
                    bt = st.env.get(base)
                    if bt is not None and bt[0] == "sym":
                        full = bt[1] + key[len(base):]
                    elif bt is not None:
                        continue
                st.env[full] = ("havoc", n.id, full)
        n0 = len(st.events)
        held_before = st.held
        if k == "test":
            t = self.term(a, st, True, n.id)
            if label in ("true", "false"):
                self.add_cond(st, t, label == "true")
        elif k == "for":
            it = self.term(a, st, True, n.id)
            if label == "true":
                self.assign(st, n.owner.target, ("elem", it, n.id), n.owner, n.id)
            st.events.append(Event("iter", n.owner, n.id, value=it, target=label, ncond=len(st.cond)))
        elif k == "except":
            if isinstance(a, ast.ExceptHandler) and a.name:
                st.env[a.name] = ("exc", norm(a.type) if a.type is not None else "BaseException")
        elif k == "with":
            items = n.owner.items if isinstance(n.owner, ast.With) else []
            if isinstance(a, ast.Tuple) and items:
                for it_ in items:
                    v = self.term(it_.context_expr, st, True, n.id)
                    st.events.append(Event("with", it_.context_expr, n.id, value=v, ncond=len(st.cond)))
                    if it_.optional_vars is not None and not exc:
                        st.nfresh += 1
                        self.assign(st, it_.optional_vars, ("fresh", st.nfresh, "enter:" + show(v)), n.owner, n.id)
            else:
                v = self.term(a, st, True, n.id)
                st.events.append(Event("with", a, n.id, value=v, ncond=len(st.cond)))
        elif k == "def":
            st.defs[a.name] = a
            st.env[a.name] = ("func", a.name)
            # default values are evaluated when the def statement runs (early binding of loop variables)
            st.env[f"{a.name}.__defaults__"] = ("tuple",) + tuple(self.term(d, st, False, n.id) for d in a.args.defaults)
        elif k == "stmt":
            if isinstance(a, ast.Assign):
                v = self.term(a.value, st, True, n.id)
                if not exc:
                    for tg in a.targets:
                        self.assign(st, tg, v, a, n.id)
            elif isinstance(a, ast.AnnAssign):
                if a.value is not None:
                    v = self.term(a.value, st, True, n.id)
                    if not exc:
                        self.assign(st, a.target, v, a, n.id)
            elif isinstance(a, ast.AugAssign):
                old = self.term(_as_load(a.target), st, True, n.id)
                v = self.term(a.value, st, True, n.id)
                if not exc:
                    self.assign(st, a.target, self.mk(("bin", type(a.op).__name__, old, v)), a, n.id)
            elif isinstance(a, ast.Expr):
                self.term(a.value, st, True, n.id)
            elif isinstance(a, ast.Return):
                v = self.term(a.value, st, True, n.id) if a.value is not None else NONE
                if not exc:
                    st.ret = v
                    st.events.append(Event("return", a, n.id, value=v, ncond=len(st.cond)))
            elif isinstance(a, ast.Raise):
                v = self.term(a.exc, st, True, n.id) if a.exc is not None else ("reraise",)
                st.events.append(Event("raise", a, n.id, value=v, ncond=len(st.cond)))
            elif isinstance(a, ast.Assert):
                t = self.term(a.test, st, True, n.id)
                if not exc:
                    self.add_cond(st, t, True)
            elif isinstance(a, ast.Delete):
                for tg in a.targets:
                    if isinstance(tg, ast.Subscript):
                        recv = self.term(tg.value, st, True, n.id)
                        st.events.append(Event("del", a, n.id, recv=recv, target=norm(tg.value), key=("opaque", norm(tg.slice)), ncond=len(st.cond)))
                    else:
                        kk = self.key_of(tg, st)
                        st.events.append(Event("del", a, n.id, target=kk or norm(tg), ncond=len(st.cond)))
                        if kk is not None:
                            st.env.pop(kk, None)
        for ev in st.events[n0:]:
            if not ev.held:
                ev.held = held_before
            # explicit lock protocol: x.acquire() ... x.release()
            if ev.kind == "call" and ev.attr == "acquire" and ev.recv is not None and not exc:
                st.held = st.held + (ev.recv,)
            elif ev.kind == "call" and ev.attr == "release" and ev.recv is not None and ev.recv in st.held:
                i = len(st.held) - 1 - st.held[::-1].index(ev.recv)
                st.held = st.held[:i] + st.held[i + 1:]
            elif ev.kind == "with" and not exc:
                st.held = st.held + (ev.value,)
        if exc:
            for ev in st.events[n0:]:
                ev.raised = True

    # -------------------------------------------------------------- runs
    def run(self, start: int | None = None, stops: Iterable[int] = (), init: State | None = None, limit: int = 4000,
            avoid: Iterable[int] = (), back_stops: Iterable[int] = ()) -> Iterator[tuple[list[tuple[int, str]], State]]:
        """feasible acyclic paths from `start` (default entry) to the first node in `stops` or to an exit,
        with the state reached *before* executing the end node"""
        cfg = self.cfg
        s0 = cfg.entry.id if start is None else start
        stops = set(stops)
        ends = stops | {cfg.exit.id, cfg.raise_exit.id}
        avoid = set(avoid)
        back_stops = set(back_stops)
        count = 0
        base = init.clone() if init is not None else State()
        heads = {n.id for n in cfg.nodes if n.kind in ("test", "for") and isinstance(n.owner, (ast.While, ast.For))} if self.peel else set()
        # (node, path, seen, state, heads visited twice)
        stack: list[tuple[int, list[tuple[int, str]], frozenset, State, frozenset]] = [(s0, [(s0, "")], frozenset([s0]), base, frozenset())]
        while stack:
            nid, path, seen, st, twice = stack.pop()
            if nid in ends and len(path) > 1:
                count += 1
                if count > limit:
                    raise AnalysisError(f"path bound exceeded in {self.fi.qualname}")
                yield path, st
                continue
            second = nid in twice
            for (m, lab) in cfg.succ[nid]:
                if m in seen and m in back_stops and m not in avoid and not second:
                    # back edge to a stop node (one full trip round a loop)
                    for st2 in self.exec_fork(st.clone(), cfg.nodes[nid], lab):
                        if st2.feasible:
                            count += 1
                            if count > limit:
                                raise AnalysisError(f"path bound exceeded in {self.fi.qualname}")
                            yield path + [(m, lab)], st2
            succ = []
            for (m, lab) in cfg.succ[nid]:
                if m in avoid:
                    continue
                if m not in seen:
                    if second and lab == "true":
                        continue  # second visit of a loop head: only the exit
                    succ.append((m, lab, twice))
                elif m in heads and m not in twice and m != nid and self.has_back_edge(cfg.nodes[m]) and not second:
                    # back edge: visit the head once more to leave the loop after this (last) iteration
                    succ.append((m, lab, twice | {m}))
            for (m, lab, tw) in reversed(succ):
                st0 = st.clone()
                if second:
                    st0._no_havoc = True
                for st2 in self.exec_fork(st0, cfg.nodes[nid], lab):
                    st2._no_havoc = False
                    if not st2.feasible:
                        continue
                    stack.append((m, path + [(m, lab)], seen | {m}, st2, tw))


def _as_load(t: ast.AST) -> ast.AST:
    import copy

    t2 = copy.deepcopy(t)
    for x in ast.walk(t2):
        if hasattr(x, "ctx"):
            x.ctx = ast.Load()
    return t2


def string_pieces(t: Term) -> list | None:
    """a string-building term as a sequence of literal pieces and ("repr", X) / ("str", X) holes -- the same sequence
    for `repr(x) + "\\n"`, `"%r\\n" % (x,)`, `"{!r}\\n".format(x)` and f"{x!r}\\n"; None when the term is not of that kind"""
    def merge(ps: list) -> list:
        out: list = []
        for p in ps:
            if isinstance(p, str) and out and isinstance(out[-1], str):
                out[-1] += p
            elif p != "":
                out.append(p)
        return out
    tag = t[0]
    if tag == "const" and isinstance(t[1], str):
        return [t[1]] if t[1] else []
    if tag == "bin" and t[1] == "Add":
        a, b = string_pieces(t[2]), string_pieces(t[3])
        return None if a is None or b is None else merge(a + b)
    if tag == "pcall" and t[1] in ("repr", "str") and len(t[2]) == 1 and not t[3]:
        return [(t[1], t[2][0])]
    if tag == "fstr":
        ps: list = []
        for v in t[1:]:
            if v[0] == "const" and isinstance(v[1], str):
                ps.append(v[1])
            elif v[0] == "fmt" and len(v) == 3:
                ps.append(("repr" if v[2] == 114 else "str", v[1]))
            else:
                return None
        return merge(ps)
    if tag == "pcall" and isinstance(t[1], tuple) and t[1][0] == "meth" and t[1][2] == "format" and t[1][1][0] == "const" and isinstance(t[1][1][1], str) and not t[3]:
        import string
        ps = []
        auto = 0
        try:
            for lit, field, spec, conv in string.Formatter().parse(t[1][1][1]):
                ps.append(lit)
                if field is None:
                    continue
                if spec or conv not in (None, "r", "s") or not (field == "" or field.isdigit()):
                    return None
                idx = int(field) if field else auto
                auto += 1
                if idx >= len(t[2]):
                    return None
                ps.append(("repr" if conv == "r" else "str", t[2][idx]))
        except ValueError:
            return None
        return merge(ps)
    if tag == "bin" and t[1] == "Mod" and t[2][0] == "const" and isinstance(t[2][1], str):
        import re
        args = list(t[3][1:]) if t[3][0] == "tuple" else [t[3]]
        ps = []
        pos = 0
        k = 0
        for m in re.finditer(r"%(.)", t[2][1]):
            ps.append(t[2][1][pos:m.start()])
            pos = m.end()
            c = m.group(1)
            if c == "%":
                ps.append("%")
            elif c in "rs" and k < len(args):
                ps.append(("repr" if c == "r" else "str", args[k]))
                k += 1
            else:
                return None
        ps.append(t[2][1][pos:])
        return merge(ps) if k == len(args) else None
    return None


def dict_entries(st: "State", D: Term, upto: "Event | None" = None) -> dict[Any, Term]:
    """constant-keyed entries of the dict value D as built along the path: a display, `dict(k=v, ...)`, or an empty
    container filled by `D[k] = v` stores (those logged before the event `upto`)"""
    out: dict[Any, Term] = {}
    if D[0] == "dict":
        for kv in D[1:]:
            if kv[0][0] == "const":
                out[kv[0][1]] = kv[1]
    elif D[0] == "pcall" and D[1] == "dict" and not D[2]:
        for k, v in D[3]:
            out[k] = v
    evs = st.events if upto is None else st.events[:st.events.index(upto)]
    for e in evs:
        if e.kind == "store" and e.recv == D and e.key is not None and e.key[0] == "const":
            out[e.key[1]] = e.value
    return out


def evaluator(repo: Repo, fi: FuncInfo, oracle=None, **kw: Any) -> Evaluator:
    from .cfg import Oracle, build_cfg

    cfg = build_cfg(repo, fi, oracle or Oracle(repo, fi, precise=True))
    return Evaluator(repo, fi, cfg, **kw)
