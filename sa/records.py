"""Record desugaring: NamedTuple classes defined in the repo are tuples with field names.

Replacing an anonymous tuple (`(callback, endmarker, strconfig)`, a `(name, handler)` table row) by a small
`typing.NamedTuple` is a behaviour-preserving refactoring -- the object is still that tuple.  So that every rule
(AST- or term-based) keeps seeing the tuple, the module trees are normalised right after parsing:

* `Rec(a, b, c)` / `Rec(f1=a, ...)`            ->  `(a, b, c)`
* `e.f`  where `e` is statically a `Rec`       ->  `e[i]`

`e` is statically a `Rec` when it is a parameter or local annotated with it, the result of its constructor, an
element taken (`[k]`, `.get(k)`, `.pop(k, d)`, `.setdefault`, iteration over `.values()`) from a name or
attribute whose annotation mentions `Rec` (e.g. `self._callbacks: dict[int, Rec]`), or a local assigned from
such an expression.  Anything else is left untouched (and then looks to the rules like what it is: an unknown
attribute access).
"""

from __future__ import annotations

import ast
import copy


PROPS: dict[str, dict[str, ast.AST]] = {}


def _plain_record(node: ast.ClassDef):
    """(fields, defaults) for a class that is nothing but a record of its constructor arguments: `__slots__` naming the
    fields and an `__init__(self, a, b, ...)` that stores each argument under its own name -- or a `@dataclass`"""
    # a class with behaviour of its own (methods other than __init__/__repr__ and read-only properties) is not "just a record"
    for st in node.body:
        if isinstance(st, (ast.FunctionDef, ast.AsyncFunctionDef)) and st.name not in ("__init__", "__repr__", "__str__") \
                and not any(ast.unparse(d) == "property" for d in st.decorator_list):
            return None
    decos = [ast.unparse(d).split("(")[0].split(".")[-1] for d in node.decorator_list]
    if "dataclass" in decos and not node.bases:
        fields, defaults = [], {}
        for st in node.body:
            if isinstance(st, ast.AnnAssign) and isinstance(st.target, ast.Name) and "ClassVar" not in ast.unparse(st.annotation):
                fields.append(st.target.id)
                if st.value is not None:
                    if isinstance(st.value, ast.Call) and ast.unparse(st.value.func).split(".")[-1] == "field":
                        return None
                    defaults[st.target.id] = st.value
            elif isinstance(st, ast.FunctionDef) and st.name in ("__init__", "__post_init__", "__new__", "__getattr__", "__eq__", "__iter__", "__getitem__"):
                return None
        return (fields, defaults) if fields else None
    if node.bases or node.decorator_list:
        return None
    slots = None
    init = None
    for st in node.body:
        if isinstance(st, ast.Assign) and len(st.targets) == 1 and isinstance(st.targets[0], ast.Name) and st.targets[0].id == "__slots__" \
                and isinstance(st.value, (ast.Tuple, ast.List)) and all(isinstance(x, ast.Constant) and isinstance(x.value, str) for x in st.value.elts):
            slots = [x.value for x in st.value.elts]
        elif isinstance(st, ast.FunctionDef) and st.name == "__init__":
            init = st
        elif isinstance(st, ast.FunctionDef) and st.name in ("__new__", "__getattr__", "__setattr__", "__eq__", "__iter__", "__getitem__", "__len__", "__bool__"):
            return None
    if slots is None or init is None:
        return None
    a = init.args
    if a.vararg or a.kwarg or a.kwonlyargs or a.posonlyargs:
        return None
    params = [x.arg for x in a.args][1:]
    if sorted(params) != sorted(slots):
        return None
    stored = {}
    for st in init.body:
        if isinstance(st, ast.Expr) and isinstance(st.value, ast.Constant):
            continue
        tgt = st.targets[0] if isinstance(st, ast.Assign) and len(st.targets) == 1 else (st.target if isinstance(st, ast.AnnAssign) and st.value is not None else None)
        if isinstance(tgt, ast.Attribute) and isinstance(tgt.value, ast.Name) and tgt.value.id == a.args[0].arg and isinstance(st.value, ast.Name) and st.value.id == tgt.attr:
            stored[tgt.attr] = True
        else:
            return None
    if sorted(stored) != sorted(params):
        return None
    defaults = dict(zip(params[len(params) - len(a.defaults):], a.defaults))
    return params, defaults


def collect_records(trees: list[ast.Module]) -> dict[str, tuple[list[str], dict[str, ast.AST]]]:
    out: dict[str, tuple[list[str], dict[str, ast.AST]]] = {}
    PROPS.clear()
    for tree in trees:
        for node in ast.walk(tree):
            if not isinstance(node, ast.ClassDef):
                continue
            bases = [ast.unparse(b) for b in node.bases]
            if not any(b in ("NamedTuple", "typing.NamedTuple") for b in bases):
                pr = _plain_record(node)
                if pr is not None:
                    out[node.name] = pr
                    # read-only properties that are one expression of the fields are inlined at their uses
                    for st in node.body:
                        if isinstance(st, ast.FunctionDef) and any(ast.unparse(d) == "property" for d in st.decorator_list) and len(st.args.args) == 1:
                            body = [b for b in st.body if not (isinstance(b, ast.Expr) and isinstance(b.value, ast.Constant))]
                            if len(body) == 1 and isinstance(body[0], ast.Return) and body[0].value is not None:
                                PROPS.setdefault(node.name, {})[st.name] = (st.args.args[0].arg, body[0].value)
                continue
            fields: list[str] = []
            defaults: dict[str, ast.AST] = {}
            simple = True
            for st in node.body:
                if isinstance(st, ast.AnnAssign) and isinstance(st.target, ast.Name):
                    fields.append(st.target.id)
                    if st.value is not None:
                        defaults[st.target.id] = st.value
                elif isinstance(st, ast.Expr) and isinstance(st.value, ast.Constant):
                    continue
                elif isinstance(st, (ast.FunctionDef, ast.Pass)):
                    continue
                else:
                    simple = False
            if simple and fields:
                out[node.name] = (fields, defaults)
    return out


def _mentions(ann: ast.AST | None, rec: str) -> bool:
    if ann is None:
        return False
    if isinstance(ann, ast.Constant) and isinstance(ann.value, str):
        return rec in ann.value.replace("[", " ").replace("]", " ").replace(",", " ").replace("|", " ").split()
    return any(isinstance(x, ast.Name) and x.id == rec for x in ast.walk(ann)) or \
        any(isinstance(x, ast.Constant) and isinstance(x.value, str) and rec in x.value for x in ast.walk(ann))


def _is_direct(ann: ast.AST | None, rec: str) -> bool:
    """annotation is Rec, Rec | None, Optional[Rec]"""
    if ann is None:
        return False
    txt = ast.unparse(ann).replace(" ", "").strip("'\"")
    return txt in (rec, f"{rec}|None", f"None|{rec}", f"Optional[{rec}]")


class _Desugar(ast.NodeTransformer):
    def __init__(self, records: dict[str, tuple[list[str], dict[str, ast.AST]]], containers: dict[str, str]) -> None:
        self.records = records
        self.containers = containers  # attribute / variable name -> record held by the container
        self.typed: list[dict[str, str]] = [{}]  # scope stack: local name -> record

    # ---- typing
    def container_of(self, e: ast.AST) -> str | None:
        if isinstance(e, ast.Attribute) and e.attr in self.containers:
            return self.containers[e.attr]
        if isinstance(e, ast.Name):
            if e.id in self.containers:
                return self.containers[e.id]
            al = self.typed[-1].get("container:" + e.id)
            if al:
                return al
        return None

    def rec_of(self, e: ast.AST) -> str | None:
        if isinstance(e, ast.Name):
            for sc in reversed(self.typed):
                if e.id in sc:
                    return sc[e.id]
            return None
        if isinstance(e, ast.Call):
            if isinstance(e.func, ast.Name) and e.func.id in self.records:
                return e.func.id
            if isinstance(e.func, ast.Attribute) and e.func.attr == "_make" and isinstance(e.func.value, ast.Name) and e.func.value.id in self.records:
                return e.func.value.id
            if isinstance(e.func, ast.Attribute) and e.func.attr in ("get", "pop", "setdefault", "popitem"):
                return self.container_of(e.func.value)
            if isinstance(e.func, ast.Name) and e.func.id == "cast" and len(e.args) == 2:
                for r in self.records:
                    if _is_direct(e.args[0], r):
                        return r
            return None
        if isinstance(e, ast.Subscript) and not isinstance(e.slice, ast.Slice):
            return self.container_of(e.value)
        if isinstance(e, ast.IfExp):
            return self.rec_of(e.body) or self.rec_of(e.orelse)
        if isinstance(e, ast.NamedExpr):
            return self.rec_of(e.value)
        return None

    def _scan_function(self, node: ast.AST) -> dict[str, str]:
        scope: dict[str, str] = {}
        args = getattr(node, "args", None)
        if args is not None:
            for a in args.posonlyargs + args.args + args.kwonlyargs:
                for r in self.records:
                    if _is_direct(a.annotation, r):
                        scope[a.arg] = r
                    elif _mentions(a.annotation, r):
                        scope["container:" + a.arg] = r
        self.typed.append(scope)
        body = node.body if isinstance(node.body, list) else [node.body]
        for _round in range(3):
            for st in body:
                for x in ast.walk(st):
                    if isinstance(x, ast.Assign) and len(x.targets) == 1 and isinstance(x.targets[0], ast.Name):
                        r = self.rec_of(x.value)
                        if r:
                            scope[x.targets[0].id] = r
                        c = self.container_of(x.value)
                        if c:
                            scope["container:" + x.targets[0].id] = c
                    elif isinstance(x, ast.AnnAssign) and isinstance(x.target, ast.Name):
                        for r in self.records:
                            if _is_direct(x.annotation, r):
                                scope[x.target.id] = r
                            elif _mentions(x.annotation, r):
                                scope["container:" + x.target.id] = r
                                if ast.unparse(x.annotation).split("[")[0].split(".")[-1] in ("list", "List", "Sequence", "MutableSequence", "deque", "Deque", "Iterable", "Collection", "set", "frozenset"):
                                    scope["seq:" + x.target.id] = r   # iterating it yields the records themselves
                    elif isinstance(x, ast.NamedExpr):
                        r = self.rec_of(x.value)
                        if r:
                            scope[x.target.id] = r
                    elif isinstance(x, (ast.For, ast.comprehension)) and isinstance(x.target, ast.Name):
                        it = x.iter
                        if isinstance(it, ast.Call) and isinstance(it.func, ast.Attribute) and it.func.attr == "values":
                            c = self.container_of(it.func.value)
                            if c:
                                scope[x.target.id] = c
                        elif isinstance(it, ast.Name) and ("seq:" + it.id) in scope:
                            scope[x.target.id] = scope["seq:" + it.id]
                        elif isinstance(it, ast.Name) and any(("seq:" + it.id) in sc for sc in self.typed):
                            scope[x.target.id] = next(sc["seq:" + it.id] for sc in reversed(self.typed) if ("seq:" + it.id) in sc)
        self.typed.pop()
        return scope

    # ---- traversal
    def visit_FunctionDef(self, node):
        scope = self._scan_function(node)
        self.typed.append(scope)
        self.generic_visit(node)
        self.typed.pop()
        return node

    visit_AsyncFunctionDef = visit_FunctionDef

    def visit_Lambda(self, node):
        return self.generic_visit(node)

    def visit_Attribute(self, node: ast.Attribute):
        self.generic_visit(node)
        r = self.rec_of(node.value)
        if r is not None and node.attr in PROPS.get(r, {}) and isinstance(node.ctx, ast.Load):
            selfname, expr = PROPS[r][node.attr]

            class _S(ast.NodeTransformer):
                def visit_Attribute(s_, x):  # noqa: N805
                    s_.generic_visit(x)
                    if isinstance(x.value, ast.Name) and x.value.id == selfname and x.attr in self.records[r][0]:
                        return ast.Subscript(value=copy.deepcopy(node.value), slice=ast.Constant(value=self.records[r][0].index(x.attr)), ctx=ast.Load())
                    return x
            new = _S().visit(copy.deepcopy(expr))
            if not any(isinstance(x, ast.Name) and x.id == selfname for x in ast.walk(new)):
                return ast.fix_missing_locations(ast.copy_location(new, node))
        if r is not None and node.attr in self.records[r][0]:
            i = self.records[r][0].index(node.attr)
            new = ast.Subscript(value=node.value, slice=ast.Constant(value=i), ctx=node.ctx)
            return ast.copy_location(new, node)
        return node

    def visit_Call(self, node: ast.Call):
        self.generic_visit(node)
        if isinstance(node.func, ast.Attribute) and node.func.attr == "_make" and isinstance(node.func.value, ast.Name) and node.func.value.id in self.records \
                and len(node.args) == 1 and not node.keywords:
            # Rec._make(iterable) is tuple(iterable) with field names
            return ast.copy_location(ast.Call(func=ast.Name(id="tuple", ctx=ast.Load()), args=node.args, keywords=[]), node)
        if isinstance(node.func, ast.Name) and node.func.id in self.records and not any(isinstance(a, ast.Starred) for a in node.args) \
                and not any(k.arg is None for k in node.keywords):
            fields, defaults = self.records[node.func.id]
            vals: dict[str, ast.AST] = {}
            if len(node.args) > len(fields):
                return node
            for f, a in zip(fields, node.args):
                vals[f] = a
            for k in node.keywords:
                if k.arg not in fields or k.arg in vals:
                    return node
                vals[k.arg] = k.value
            for f in fields:
                if f not in vals:
                    if f in defaults:
                        vals[f] = copy.deepcopy(defaults[f])
                    else:
                        return node
            new = ast.Tuple(elts=[vals[f] for f in fields], ctx=ast.Load())
            return ast.copy_location(new, node)
        return node


def desugar_records(trees: list[ast.Module]) -> dict[str, list[str]]:
    """normalise the module trees in place; returns {record class: fields} for the evidence"""
    records = collect_records(trees)
    if not records:
        return {}
    containers: dict[str, str] = {}
    for tree in trees:
        for x in ast.walk(tree):
            if isinstance(x, ast.AnnAssign):
                name = x.target.attr if isinstance(x.target, ast.Attribute) else (x.target.id if isinstance(x.target, ast.Name) else None)
                if name is None:
                    continue
                for r in records:
                    if _mentions(x.annotation, r) and not _is_direct(x.annotation, r):
                        containers[name] = r
    for tree in trees:
        tr = _Desugar(records, containers)
        tr.visit(tree)
        ast.fix_missing_locations(tree)
    return {k: v[0] for k, v in records.items()}
