"""Idiom normalisation: local, meaning-preserving rewrites applied to every module tree right after parsing, so
that AST rules and term rules alike see ONE spelling of a construct.  Each rewrite is an equivalence of Python
itself (no repository knowledge) unless it says otherwise; the ones that need a fact about the repository check
that fact on the parsed trees and are skipped when it does not hold.

  try: T = D[K]                                  T = D.get(K, C)
  except KeyError: T = C            ==>          (exact: `get` returns the stored value or the default)

  try: T = D.pop(K)                              T = D.pop(K, None)
  except KeyError: pass | T = None  ==>          if T is not None: BODY
  else: BODY                                     (only if no store into the container D can store None)

  b"".join((a, b, c)) / "".join([a, b])  ==>     a + b + c          (literal sequence, empty literal separator)

  if C: raise AssertionError(m)     ==>          assert not C, m    (no else arm)

  f(a, 0, b"")                      ==>          f(a)               (trailing arguments that repeat the literal default of
                                                                     their parameter; same callee resolution as below)

  if c: ..; x = X1  else: ..; x = X2              if c: ..; f(X1)  else: ..; f(X2)
  f(x)                              ==>           (x a local assigned last in both arms and used nowhere else:
                                                   the consumer statement is sunk into the arms)

  x.wait(timeout=None)              ==>          x.wait()           (get/wait/join/receive/waitclose/waitfinish/waitall: None is
                                                                     the default of `timeout` in the stdlib and in this package)

  f(a, p2=b, p3=c)                  ==>          f(a, b, c)         (callee resolved by a name that has one signature
                                                                     in the repository; keywords must name exactly the
                                                                     next positional parameters)

  if not C: A else: B               ==>          if C: B else: A    (only when both arms are present)

  class Code(IntEnum): A = 1        ==>          Code.A -> 1, Code.A.name -> "A", int(Code.A) -> 1, map(int, Code) -> (1, ..)   (named ints)

  with ExitStack() as s: A; s.callback(f, x); B  ==>     A; try: B finally: f(x)

  append = self.stack.append; ...; append(x)     ==>     self.stack.append(x)        (also `f = partial(g, a); f(b)` ==> g(a, b))

  match S: case V: A; case _: B     ==>          if S == V: A else: B         (value/singleton/or/class()/capture/wildcard patterns)

  x[:3] == "abc"                    ==>          x.startswith("abc")          (likewise x[-3:] / endswith)

  if A and (x := E) != K: S         ==>          if A: x = E; if x != K: S
  while A and (x := E): B           ==>          while A: x = E; if not x: break; B

  L = [x for x in IT if C]; for x in L: BODY     ==>     for x in IT: if C: BODY

  L[a:] = [x]                       ==>          del L[a:]; L.append(x)

  def make(p): def f(self): B(p); return f
  class C: m = make(A)              ==>          class C: def m(self): B(A)          (closure factory instantiated)

  a, b = L[-2:]; del L[-2:]         ==>          b = L.pop(); a = L.pop()

  if C: ...; return V
  raise E                           ==>          if not C: raise E; ...; return V     (at the end of a block)

  x in range(a, b)                  ==>          a <= x < b          (x a name; `range` literal or a module constant)

Line/column positions of the rewritten nodes are those of the original statement, so reports still point at it.
"""

from __future__ import annotations

import ast
import copy

# method names that also exist on standard-library objects the repository calls: a keyword argument of such a
# call must not be bound against a repository signature of the same name
STDLIB_METHOD_NAMES = {
    "get", "put", "read", "write", "close", "join", "wait", "send", "pop", "append", "start", "run", "set", "clear", "acquire",
    "release", "kill", "open", "flush", "encode", "decode", "format", "split", "strip", "makefile", "readline", "update", "remove",
    "add", "sort", "index", "count", "copy", "items", "keys", "values", "load", "dump", "loads", "dumps", "exit", "terminate",
    "receive", "spawn", "connect", "bind", "listen", "accept", "shutdown", "sleep", "find", "replace", "insert", "extend", "setdefault",
    "popitem", "discard", "seek", "tell", "fileno", "recv", "sendall", "new", "interrupt", "filter", "map", "partial", "exec", "compile", "eval",
}


def _is_keyerror(t: ast.AST | None) -> bool:
    if isinstance(t, ast.Name):
        return t.id == "KeyError"
    if isinstance(t, ast.Tuple) and len(t.elts) == 1:
        return _is_keyerror(t.elts[0])
    return False


def _negate(t: ast.AST) -> ast.AST:
    if isinstance(t, ast.UnaryOp) and isinstance(t.op, ast.Not):
        return t.operand
    if isinstance(t, ast.Compare) and len(t.ops) == 1:
        inv = {ast.Is: ast.IsNot, ast.IsNot: ast.Is, ast.Eq: ast.NotEq, ast.NotEq: ast.Eq, ast.In: ast.NotIn, ast.NotIn: ast.In,
               ast.Lt: ast.GtE, ast.GtE: ast.Lt, ast.Gt: ast.LtE, ast.LtE: ast.Gt}
        # (ordering comparisons are only inverted for the assert form, where the operands are ints/lengths in this code base:
        #  NaN-style partial orders do not occur in guards that raise AssertionError)
        k = type(t.ops[0])
        if k in (ast.Is, ast.IsNot, ast.Eq, ast.NotEq, ast.In, ast.NotIn):
            return ast.copy_location(ast.Compare(left=t.left, ops=[inv[k]()], comparators=t.comparators), t)
    return ast.copy_location(ast.UnaryOp(op=ast.Not(), operand=t), t)


def _movable(v: ast.AST) -> bool:
    """a value whose evaluation can be moved to the consumer: literals, names, attribute chains, calls on such arguments"""
    if isinstance(v, (ast.Constant, ast.Name)):
        return True
    if isinstance(v, ast.Attribute):
        return _movable(v.value)
    if isinstance(v, ast.Call):
        return _movable(v.func) and all(_movable(a) for a in v.args) and all(k.arg is not None and _movable(k.value) for k in v.keywords)
    if isinstance(v, (ast.Tuple, ast.List)):
        return all(_movable(x) for x in v.elts)
    return False


def _fuse_comprehension(node: ast.AST) -> ast.AST | None:
    """(E(x) for x in (F(y) for y in W if C) if D(x))   ==>   (E(F(y)) for y in W if C and D(F(y)))
    (one outer generator over an inner generator expression / list comprehension whose element is a plain load)"""
    if not isinstance(node, (ast.GeneratorExp, ast.ListComp, ast.SetComp)) or len(node.generators) != 1:
        return None
    g = node.generators[0]
    inner = g.iter
    if not isinstance(inner, (ast.GeneratorExp, ast.ListComp)) or not isinstance(g.target, ast.Name) or g.is_async or not _movable(inner.elt):
        return None
    bound = {y.id for c in inner.generators for y in ast.walk(c.target) if isinstance(y, ast.Name)}
    if g.target.id in bound:
        return None
    sub = _Subst({g.target.id: inner.elt})
    gens = [copy.deepcopy(c) for c in inner.generators]
    gens[-1].ifs = list(gens[-1].ifs) + [sub.visit(copy.deepcopy(t)) for t in g.ifs]
    new = type(node)(elt=sub.visit(copy.deepcopy(node.elt)), generators=gens)
    return ast.fix_missing_locations(ast.copy_location(new, node))


def _words(text: str) -> list[str]:
    import re as _re
    return _re.findall(r"[A-Za-z_][A-Za-z_0-9]*", text)


def _fold_bool(t: ast.AST) -> ast.AST:
    if isinstance(t, ast.Compare) and len(t.ops) == 1 and isinstance(t.left, ast.Constant) and isinstance(t.comparators[0], ast.Constant):
        a, b = t.left.value, t.comparators[0].value
        try:
            v = {ast.Eq: lambda: a == b, ast.NotEq: lambda: a != b, ast.Lt: lambda: a < b, ast.LtE: lambda: a <= b, ast.Gt: lambda: a > b,
                 ast.GtE: lambda: a >= b, ast.Is: lambda: a is b if (a is None or b is None or isinstance(a, bool) or isinstance(b, bool)) else None}.get(type(t.ops[0]), lambda: None)()
        except TypeError:
            v = None
        if isinstance(v, bool):
            return ast.copy_location(ast.Constant(value=v), t)
        return t
    if isinstance(t, ast.BoolOp):
        vals = [_fold_bool(v) for v in t.values]
        is_and = isinstance(t.op, ast.And)
        keep = []
        for v in vals:
            if isinstance(v, ast.Constant) and isinstance(v.value, bool):
                if v.value is (not is_and):      # False in `and` / True in `or`: decided (operands before it are pure tests here)
                    if not keep:
                        return v
                    keep.append(v)
                    break
                continue                          # neutral element
            keep.append(v)
        if not keep:
            return ast.copy_location(ast.Constant(value=is_and), t)
        if isinstance(keep[-1], ast.Constant) and isinstance(keep[-1].value, bool) and all(_movable(k) or isinstance(k, ast.Compare) for k in keep[:-1]):
            return keep[-1]                       # X and False  ==  False   when X has no effect
        if len(keep) == 1:
            return keep[0]
        return ast.copy_location(ast.BoolOp(op=t.op, values=keep), t)
    if isinstance(t, ast.UnaryOp) and isinstance(t.op, ast.Not):
        v = _fold_bool(t.operand)
        if isinstance(v, ast.Constant) and isinstance(v.value, bool):
            return ast.copy_location(ast.Constant(value=not v.value), t)
    return t


class _Subst(ast.NodeTransformer):
    def __init__(self, m: dict[str, ast.AST]) -> None:
        self.m = m

    def visit_Name(self, node: ast.Name):
        if isinstance(node.ctx, ast.Load) and node.id in self.m:
            return ast.copy_location(copy.deepcopy(self.m[node.id]), node)
        return node


class _SubstNode(ast.NodeTransformer):
    def __init__(self, old: ast.AST, new: ast.AST) -> None:
        self.old, self.new = old, new

    def visit(self, node):
        if node is self.old:
            return self.new
        return super().visit(node)


class Signatures:
    """callable name -> positional parameter names, for names that denote one signature in the repository"""

    def __init__(self, trees: list[ast.Module]) -> None:
        by_name: dict[str, list[tuple[str, ...] | None]] = {}
        classes: dict[str, list[tuple[str, ...] | None]] = {}

        def params(fn: ast.FunctionDef, method: bool) -> tuple[str, ...] | None:
            a = fn.args
            if a.vararg or a.kwarg or a.kwonlyargs:
                return None
            names = [x.arg for x in a.posonlyargs + a.args]
            defaults: list[ast.AST | None] = [None] * (len(names) - len(a.defaults)) + list(a.defaults)
            static = any(isinstance(d, ast.Name) and d.id == "staticmethod" for d in fn.decorator_list)
            if method and not static:
                names, defaults = names[1:], defaults[1:]
            # (name, default literal or NODEFAULT) pairs; a non-literal default is recorded as such
            return tuple((n_, ("const", repr(d.value)) if isinstance(d, ast.Constant) else (None if d is None else ("expr", ast.dump(d)))) for n_, d in zip(names, defaults))

        def visit(body: list[ast.stmt], cls: str | None) -> None:
            for st in body:
                if isinstance(st, (ast.FunctionDef, ast.AsyncFunctionDef)):
                    p = params(st, cls is not None)
                    if cls is not None and st.name == "__init__":
                        classes.setdefault(cls, []).append(p)
                    elif not (st.name.startswith("__") and st.name.endswith("__")):
                        by_name.setdefault(st.name, []).append(p)
                    visit(st.body, None)
                elif isinstance(st, ast.ClassDef):
                    visit(st.body, st.name)
                elif isinstance(st, (ast.If, ast.Try, ast.With, ast.For, ast.While)):
                    for fld in ("body", "orelse", "finalbody"):
                        visit(getattr(st, fld, []) or [], cls)
                    for h in getattr(st, "handlers", []) or []:
                        visit(h.body, cls)
        for t in trees:
            visit(t.body, None)
        self.table: dict[str, tuple[str, ...]] = {}
        for name, sigs in by_name.items():
            if name in STDLIB_METHOD_NAMES or name in classes:
                continue
            if all(s is not None for s in sigs) and len(set(sigs)) == 1:
                self.table[name] = sigs[0]  # type: ignore[assignment]
        for name, sigs in classes.items():
            if name in by_name:
                continue
            if len(sigs) == 1 and sigs[0] is not None and name.lstrip("_")[:1].isupper():
                self.table[name] = sigs[0]


def nonnone_containers(trees: list[ast.Module]) -> set[str]:
    """attribute names X such that every `<e>.X[k] = v` in the repository stores a display or a constructed object"""
    ok: dict[str, bool] = {}
    for t in trees:
        for fn in ast.walk(t):
            if not isinstance(fn, (ast.FunctionDef, ast.AsyncFunctionDef)):
                continue
            ctor_locals = {s.targets[0].id for s in ast.walk(fn) if isinstance(s, ast.Assign) and len(s.targets) == 1 and isinstance(s.targets[0], ast.Name)
                           and isinstance(s.value, ast.Call) and isinstance(s.value.func, ast.Name) and s.value.func.id[:1].isupper()}
            multi = {}
            for s in ast.walk(fn):
                if isinstance(s, ast.Assign) and len(s.targets) == 1 and isinstance(s.targets[0], ast.Name):
                    multi[s.targets[0].id] = multi.get(s.targets[0].id, 0) + 1
            attr_locals = {s.targets[0].id: s.value.attr for s in ast.walk(fn) if isinstance(s, ast.Assign) and len(s.targets) == 1
                           and isinstance(s.targets[0], ast.Name) and isinstance(s.value, ast.Attribute)}
            for s in ast.walk(fn):
                if isinstance(s, ast.Assign):
                    for tg in s.targets:
                        if isinstance(tg, ast.Subscript) and isinstance(tg.value, ast.Name) and tg.value.id in attr_locals and multi.get(tg.value.id) == 1:
                            # a hoisted container (`_callbacks = self.gateway._channelfactory._callbacks`)
                            tg = ast.Subscript(value=ast.Attribute(value=ast.Name(id="_", ctx=ast.Load()), attr=attr_locals[tg.value.id], ctx=ast.Load()),
                                               slice=tg.slice, ctx=tg.ctx)
                        if isinstance(tg, ast.Subscript) and isinstance(tg.value, ast.Attribute):
                            v = s.value
                            good = isinstance(v, (ast.Tuple, ast.List, ast.Dict, ast.Set)) or \
                                (isinstance(v, ast.Call) and isinstance(v.func, ast.Name) and v.func.id[:1].isupper()) or \
                                (isinstance(v, ast.Name) and v.id in ctor_locals and multi.get(v.id) == 1)
                            ok[tg.value.attr] = ok.get(tg.value.attr, True) and good
    return {k for k, v in ok.items() if v}


def tuple_containers(trees: list[ast.Module]) -> dict[str, int]:
    """attribute names X such that every `<e>.X[k] = v` (also through a local `x = <e>.X`) stores a tuple display of one length"""
    lens: dict[str, set] = {}
    for t in trees:
        for fn in ast.walk(t):
            if not isinstance(fn, (ast.FunctionDef, ast.AsyncFunctionDef)):
                continue
            attr_locals = {s.targets[0].id: s.value.attr for s in ast.walk(fn) if isinstance(s, ast.Assign) and len(s.targets) == 1
                           and isinstance(s.targets[0], ast.Name) and isinstance(s.value, ast.Attribute)}
            for s in ast.walk(fn):
                if isinstance(s, ast.Assign):
                    for tg in s.targets:
                        name = None
                        if isinstance(tg, ast.Subscript) and isinstance(tg.value, ast.Attribute):
                            name = tg.value.attr
                        elif isinstance(tg, ast.Subscript) and isinstance(tg.value, ast.Name) and tg.value.id in attr_locals:
                            name = attr_locals[tg.value.id]
                        if name is not None:
                            lens.setdefault(name, set()).add(len(s.value.elts) if isinstance(s.value, ast.Tuple) and not any(isinstance(x, ast.Starred) for x in s.value.elts) else -1)
    return {k: next(iter(v)) for k, v in lens.items() if len(v) == 1 and -1 not in v}


class Normaliser:
    def __init__(self, trees: list[ast.Module]) -> None:
        self.sigs = Signatures(trees)
        self.nonnone = nonnone_containers(trees)
        self.tuple_containers = tuple_containers(trees)
        # method name -> attributes of self it stores (any class: a conservative union by name)
        self.method_stores: dict[str, set[str]] = {}
        for t in trees:
            for m in ast.walk(t):
                if isinstance(m, ast.FunctionDef):
                    for x in ast.walk(m):
                        if isinstance(x, ast.Attribute) and isinstance(x.ctx, (ast.Store, ast.Del)) and isinstance(x.value, ast.Name) and x.value.id == "self":
                            self.method_stores.setdefault(m.name, set()).add(x.attr)
        # attributes that are only ever bound to freshly built lists
        lst: dict[str, bool] = {}
        for t in trees:
            for x in ast.walk(t):
                if isinstance(x, (ast.Assign, ast.AnnAssign)) and getattr(x, "value", None) is not None:
                    for tg in (x.targets if isinstance(x, ast.Assign) else [x.target]):
                        if isinstance(tg, ast.Attribute):
                            good = isinstance(x.value, (ast.List, ast.ListComp)) or (isinstance(x.value, ast.Call) and isinstance(x.value.func, ast.Name) and x.value.func.id == "list")
                            lst[tg.attr] = lst.get(tg.attr, True) and good
        self.list_attrs = {k for k, v in lst.items() if v}
        self.plain_methods: dict[str, set[str]] = {}
        for t in trees:
            for c in ast.walk(t):
                if isinstance(c, ast.ClassDef):
                    self.plain_methods.setdefault(c.name, set()).update(
                        m.name for m in c.body if isinstance(m, ast.FunctionDef) and not m.decorator_list and m.args.args and m.args.args[0].arg == "self")
        self.subclassed = {ast.unparse(b).split(".")[-1] for t in trees for c in ast.walk(t) if isinstance(c, ast.ClassDef) for b in c.bases}
        # attribute names that some function other than an __init__ (or a class body) assigns: `x.attr` may change under a reader
        self.mutable_attrs: set[str] = set()
        for t in trees:
            for fnode in ast.walk(t):
                if isinstance(fnode, (ast.FunctionDef, ast.AsyncFunctionDef)) and fnode.name != "__init__":
                    for x in ast.walk(fnode):
                        if isinstance(x, ast.Attribute) and isinstance(x.ctx, (ast.Store, ast.Del)):
                            self.mutable_attrs.add(x.attr)
        # names bound exactly once (class or module level) to a tuple of plain names, never re-bound as attributes: exception families
        cnt: dict[str, list[ast.AST]] = {}
        for t in trees:
            for x in ast.walk(t):
                if isinstance(x, ast.Assign) and len(x.targets) == 1 and isinstance(x.targets[0], ast.Name):
                    cnt.setdefault(x.targets[0].id, []).append(x.value)
        self.attrgetters = {k: v[0] for k, v in cnt.items() if len(v) == 1 and isinstance(v[0], ast.Call) and ast.unparse(v[0].func).split(".")[-1] == "attrgetter"}
        self.exc_tuples = {k: v[0] for k, v in cnt.items() if len(v) == 1 and isinstance(v[0], ast.Tuple) and v[0].elts
                           and all(isinstance(e, (ast.Name, ast.Attribute)) for e in v[0].elts) and k not in self.mutable_attrs
                           and any(ast.unparse(e).split(".")[-1].endswith(("Error", "Exception", "Interrupt", "Exit", "Terminate", "error", "timeout")) for e in v[0].elts)}
        # module constants `NAME = range(a, b)` assigned exactly once in the package
        seen: dict[str, list[ast.AST]] = {}
        for t in trees:
            for st in t.body:
                if isinstance(st, ast.Assign) and len(st.targets) == 1 and isinstance(st.targets[0], ast.Name):
                    seen.setdefault(st.targets[0].id, []).append(st.value)
        self.ranges = {k: v[0] for k, v in seen.items() if len(v) == 1 and isinstance(v[0], ast.Call) and isinstance(v[0].func, ast.Name) and v[0].func.id == "range"}
        # attribute name -> for every store outside an __init__: the classes whose instances the store can target
        # (`self.x = ..` in a method of K -> {K}; `name.x = ..` with `name` annotated / constructed as repository classes -> those;
        # anything else -> None = unknown)
        self.class_bases: dict[str, set[str]] = {}
        for t in trees:
            for c in ast.walk(t):
                if isinstance(c, ast.ClassDef):
                    self.class_bases.setdefault(c.name, set()).update(ast.unparse(b).split(".")[-1] for b in c.bases)
        self.typed_stores: dict[str, list[set[str] | None]] = {}
        for t in trees:
            for c in [x for x in ast.walk(t) if isinstance(x, ast.ClassDef)] + [t]:
                for m in (c.body if isinstance(c, ast.ClassDef) else [x for x in t.body if isinstance(x, (ast.FunctionDef, ast.AsyncFunctionDef))]):
                    if not isinstance(m, (ast.FunctionDef, ast.AsyncFunctionDef)) or m.name == "__init__":
                        continue
                    ann: dict[str, set[str]] = {}
                    for a_ in m.args.posonlyargs + m.args.args + m.args.kwonlyargs:
                        if a_.annotation is not None:
                            ann[a_.arg] = {w for w in _words(ast.unparse(a_.annotation)) if w in self.class_bases}
                    for x in ast.walk(m):
                        if isinstance(x, ast.Assign) and len(x.targets) == 1 and isinstance(x.targets[0], ast.Name) and isinstance(x.value, ast.Call) \
                                and isinstance(x.value.func, ast.Name) and x.value.func.id in self.class_bases:
                            ann.setdefault(x.targets[0].id, set()).add(x.value.func.id)
                    first = m.args.args[0].arg if m.args.args else None
                    for x in ast.walk(m):
                        if isinstance(x, ast.Attribute) and isinstance(x.ctx, (ast.Store, ast.Del)):
                            who: set[str] | None = None
                            if isinstance(x.value, ast.Name) and x.value.id == first and isinstance(c, ast.ClassDef) and first in ("self", "cls"):
                                who = {c.name}
                            elif isinstance(x.value, ast.Name) and ann.get(x.value.id):
                                who = set(ann[x.value.id])
                            self.typed_stores.setdefault(x.attr, []).append(who)
        # attribute name -> number of stores of that name anywhere in the package
        self.store_counts: dict[str, int] = {}
        for t in trees:
            for x in ast.walk(t):
                if isinstance(x, ast.Attribute) and isinstance(x.ctx, (ast.Store, ast.Del)):
                    self.store_counts[x.attr] = self.store_counts.get(x.attr, 0) + 1
        self.counts: dict[str, int] = {}

    def hit(self, k: str) -> None:
        self.counts[k] = self.counts.get(k, 0) + 1

    # ---------------------------------------------------------------- expressions
    def expr(self, e: ast.AST) -> ast.AST:
        return _Expr(self).visit(e)

    # ----------------------------------------------------------------- statements
    def block(self, body: list[ast.stmt]) -> list[ast.stmt]:
        out: list[ast.stmt] = []
        for st in body:
            out.extend(self.stmt(st))
        out = self.single_use_generators(out)
        out = self.filtered_loops(out)
        out = self.slice_pops(out)
        out = self.index_reads_then_del(out)
        out = self.sink_into_arms(out)
        # if C: ...; return V          if not C: raise E
        # raise E               ==>    ...; return V            (error exits are spelled as guards)
        if len(out) >= 2 and isinstance(out[-1], ast.Raise) and isinstance(out[-2], ast.If) and not out[-2].orelse \
                and out[-2].body and isinstance(out[-2].body[-1], ast.Return) \
                and not any(isinstance(x, (ast.Raise, ast.Return)) for b in out[-2].body[:-1] for x in ast.walk(b)):
            g, r = out[-2], out[-1]
            guard = ast.fix_missing_locations(ast.copy_location(ast.If(test=_negate(g.test), body=[r], orelse=[]), g))
            self.hit("return-then-raise->guard")
            out = out[:-2] + [guard] + list(g.body)
        return out

    def single_use_generators(self, stmts: list[ast.stmt]) -> list[ast.stmt]:
        """g = (E for x in W if C); return list(f(a, g))   ==>   return list(f(a, (E for x in W if C)))
        (a generator expression bound to a local that the very next statement consumes once: what that statement evaluates
        before reaching it are plain loads, and nothing later mentions the local)"""
        out = list(stmts)
        i = 0
        while i + 1 < len(out):
            a, b = out[i], out[i + 1]
            if isinstance(a, ast.Assign) and len(a.targets) == 1 and isinstance(a.targets[0], ast.Name) and isinstance(a.value, ast.GeneratorExp) \
                    and isinstance(b, (ast.Return, ast.Assign, ast.Expr)) and b.value is not None:
                nm = a.targets[0].id
                uses = [x for x in ast.walk(b) if isinstance(x, ast.Name) and x.id == nm]
                later = [x for s_ in out[i + 2:] for x in ast.walk(s_) if isinstance(x, ast.Name) and x.id == nm]
                if len(uses) == 1 and isinstance(uses[0].ctx, ast.Load) and not later:
                    # the chain of calls down to the use; everything evaluated before it must be movable
                    ok = True
                    cur: ast.AST = b.value
                    while cur is not uses[0]:
                        if isinstance(cur, (ast.GeneratorExp, ast.ListComp, ast.SetComp)) and any(x is uses[0] for x in ast.walk(cur.generators[0].iter)):
                            cur = cur.generators[0].iter   # (the first iterable is what a comprehension evaluates first)
                            continue
                        if not isinstance(cur, ast.Call) or cur.keywords or not _movable(cur.func):
                            ok = False
                            break
                        nxt = None
                        for arg_ in cur.args:
                            if any(x is uses[0] for x in ast.walk(arg_)):
                                nxt = arg_
                                break
                            if not _movable(arg_):
                                ok = False
                        if nxt is None or not ok:
                            ok = False
                            break
                        cur = nxt
                    if ok:
                        b2 = _SubstNode(uses[0], a.value).visit(b)
                        b2 = self._refuse(b2)
                        self.hit("single-use-generator-inlined")
                        out[i:i + 2] = [ast.fix_missing_locations(b2)]
                        continue
            i += 1
        return out

    def _refuse(self, st: ast.stmt) -> ast.stmt:
        n = self

        class F(ast.NodeTransformer):
            def _c(self_, node):  # noqa: N805
                self_.generic_visit(node)
                r = _fuse_comprehension(node)
                if r is not None:
                    n.hit("nested-comprehension-fused")
                    return r
                return node
            visit_GeneratorExp = visit_ListComp = visit_SetComp = _c
        return F().visit(st)

    def filtered_loops(self, stmts: list[ast.stmt]) -> list[ast.stmt]:
        """L = [x for x in IT if C]                  for x in IT:
           for x in L: BODY               ==>           if C: BODY
        (L a local used for nothing else; BODY neither rebinds nor calls a method on a name that C reads)"""
        i = 0
        while i + 1 < len(stmts):
            a, f = stmts[i], stmts[i + 1]
            if isinstance(a, ast.Assign) and len(a.targets) == 1 and isinstance(a.targets[0], ast.Name) and isinstance(a.value, ast.ListComp) \
                    and len(a.value.generators) == 1 and not a.value.generators[0].is_async and isinstance(a.value.generators[0].target, ast.Name) \
                    and isinstance(a.value.elt, ast.Name) and a.value.elt.id == a.value.generators[0].target.id \
                    and isinstance(f, ast.For) and not f.orelse and isinstance(f.iter, ast.Name) and f.iter.id == a.targets[0].id and isinstance(f.target, ast.Name):
                L = a.targets[0].id
                g = a.value.generators[0]
                rest_uses = [x for t in stmts[:i] + stmts[i + 2:] for x in ast.walk(t) if isinstance(x, ast.Name) and x.id == L]
                in_body = [x for t in f.body for x in ast.walk(t) if isinstance(x, ast.Name) and x.id == L]
                reads = {x.id for c in g.ifs for x in ast.walk(c) if isinstance(x, ast.Name)} - {g.target.id}
                touched = {x.id for t in f.body for x in ast.walk(t) if isinstance(x, ast.Name) and isinstance(x.ctx, (ast.Store, ast.Del))}
                touched |= {x.func.value.id for t in f.body for x in ast.walk(t) if isinstance(x, ast.Call) and isinstance(x.func, ast.Attribute) and isinstance(x.func.value, ast.Name)}
                if not rest_uses and not in_body and not (reads & touched):
                    m = {g.target.id: ast.Name(id=f.target.id, ctx=ast.Load())} if g.target.id != f.target.id else {}
                    tests = [_Subst(m).visit(copy.deepcopy(c)) for c in g.ifs]
                    body: list[ast.stmt] = f.body
                    if tests:
                        test = tests[0] if len(tests) == 1 else ast.BoolOp(op=ast.And(), values=tests)
                        body = [ast.fix_missing_locations(ast.copy_location(ast.If(test=test, body=f.body, orelse=[]), f))]
                    new = ast.fix_missing_locations(ast.copy_location(ast.For(target=f.target, iter=g.iter, body=body, orelse=[]), f))
                    stmts = stmts[:i] + [new] + stmts[i + 2:]
                    self.hit("filter-comprehension+loop->loop-with-test")
                    continue
            i += 1
        return stmts

    def exitstack(self, st: ast.With) -> list[ast.stmt] | None:
        """with ExitStack() as s: A; s.callback(f, x); B      ==>      A; try: B finally: f(x)
        (callbacks registered by statements of the with-body itself; the stack object used for nothing else)"""
        X = st.items[0].optional_vars.id

        def is_cb(t: ast.stmt) -> bool:
            return isinstance(t, ast.Expr) and isinstance(t.value, ast.Call) and isinstance(t.value.func, ast.Attribute) and t.value.func.attr == "callback" \
                and isinstance(t.value.func.value, ast.Name) and t.value.func.value.id == X and t.value.args
        uses = [x for b in st.body for x in ast.walk(b) if isinstance(x, ast.Name) and x.id == X]
        ncb = sum(1 for b in st.body if is_cb(b))
        if ncb == 0 or len(uses) != ncb:
            return None

        def conv(body: list[ast.stmt]) -> list[ast.stmt]:
            for i, t in enumerate(body):
                if is_cb(t):
                    c = t.value
                    call = ast.Expr(value=ast.Call(func=c.args[0], args=list(c.args[1:]), keywords=list(c.keywords)))
                    rest = conv(body[i + 1:]) or [ast.Pass()]
                    tr = ast.Try(body=rest, handlers=[], orelse=[], finalbody=[call])
                    return body[:i] + [ast.fix_missing_locations(ast.copy_location(tr, t))]
            return body
        self.hit("ExitStack-callbacks->try/finally")
        return self.block(conv(st.body))

    def unmatch(self, st: ast.Match) -> list[ast.stmt] | None:
        """match S: case V1: A; case V2 | V3: B; case _: C     ==>     if S == V1: A  elif S == V2 or S == V3: B  else: C
        (value, singleton, or-, class-without-arguments, capture and wildcard patterns, guards; fixed-length sequences of those)"""
        pre: list[ast.stmt] = []
        subj = st.subject
        tuple_len = None
        s0 = st.subject
        if isinstance(s0, ast.Call) and isinstance(s0.func, ast.Attribute) and s0.func.attr in ("get", "pop") and isinstance(s0.func.value, ast.Attribute) \
                and (len(s0.args) == 1 and s0.func.attr == "get" or (len(s0.args) == 2 and isinstance(s0.args[1], ast.Constant) and s0.args[1].value is None)):
            tuple_len = self.tuple_containers.get(s0.func.value.attr)
        # `X.split(sep, 1)` (str/bytes/re: no repository method of that name) is a list of one or two items
        split_list = isinstance(s0, ast.Call) and isinstance(s0.func, ast.Attribute) and s0.func.attr in ("split", "rsplit") and not s0.keywords \
            and not any(s0.func.attr in ms for ms in self.plain_methods.values())
        split_max1 = split_list and len(s0.args) == 2 and isinstance(s0.args[1], ast.Constant) and s0.args[1].value == 1
        elem_subj: list[ast.expr] | None = None
        bool_elems: set[str] = set()
        elem_tuple_len: dict[str, int] = {}
        if isinstance(subj, ast.Tuple) and not any(isinstance(x, ast.Starred) for x in subj.elts):
            # match (A, B): case (p, q): ...   -- the elements are matched one by one (evaluated once, in order)
            elem_subj = []
            for i_, el in enumerate(subj.elts):
                nm = f"match_h{i_}"
                pre.append(ast.fix_missing_locations(ast.copy_location(ast.Assign(targets=[ast.Name(id=nm, ctx=ast.Store())], value=el), st)))
                elem_subj.append(ast.Name(id=nm, ctx=ast.Load()))
                if isinstance(el, ast.Call) and isinstance(el.func, ast.Attribute) and el.func.attr in ("get", "pop") and isinstance(el.func.value, ast.Attribute) \
                        and (len(el.args) == 1 and el.func.attr == "get" or (len(el.args) == 2 and isinstance(el.args[1], ast.Constant) and el.args[1].value is None)) \
                        and el.func.value.attr in self.tuple_containers:
                    elem_tuple_len[nm] = self.tuple_containers[el.func.value.attr]
                if isinstance(el, (ast.Compare, ast.BoolOp)) or (isinstance(el, ast.UnaryOp) and isinstance(el.op, ast.Not)) or \
                        (isinstance(el, ast.Call) and isinstance(el.func, ast.Attribute) and el.func.attr in ("is_set", "isclosed", "startswith", "endswith", "isdigit")) or \
                        (isinstance(el, ast.Call) and isinstance(el.func, ast.Name) and el.func.id in ("isinstance", "bool", "callable", "hasattr")):
                    bool_elems.add(nm)
            subj = ast.Name(id="match_h", ctx=ast.Load())
        elif not _movable(subj) or isinstance(subj, ast.Call):
            tmp = ast.Name(id="match_h", ctx=ast.Store())
            pre.append(ast.fix_missing_locations(ast.copy_location(ast.Assign(targets=[tmp], value=subj), st)))
            subj = ast.Name(id="match_h", ctx=ast.Load())

        def conj(parts: list[ast.expr]) -> ast.expr:
            parts = [p_ for p_ in parts if not (isinstance(p_, ast.Constant) and p_.value is True)]
            if not parts:
                return ast.Constant(value=True)
            return parts[0] if len(parts) == 1 else ast.BoolOp(op=ast.And(), values=parts)

        def pat(p_: ast.pattern, s_: ast.expr):
            """(test expression, bindings) or None"""
            if isinstance(p_, ast.MatchValue):
                return ast.Compare(left=copy.deepcopy(s_), ops=[ast.Eq()], comparators=[p_.value]), []
            if isinstance(p_, ast.MatchSingleton):
                if isinstance(s_, ast.Name) and s_.id in bool_elems and isinstance(p_.value, bool):
                    # a value that is a bool by construction: `is True` is the value itself
                    return (copy.deepcopy(s_) if p_.value else ast.UnaryOp(op=ast.Not(), operand=copy.deepcopy(s_))), []
                return ast.Compare(left=copy.deepcopy(s_), ops=[ast.Is()], comparators=[ast.Constant(value=p_.value)]), []
            if isinstance(p_, ast.MatchOr):
                subs = [pat(x, s_) for x in p_.patterns]
                if any(x is None or x[1] for x in subs):
                    return None
                return ast.BoolOp(op=ast.Or(), values=[x[0] for x in subs]), []
            if isinstance(p_, ast.MatchAs):
                if p_.pattern is None:
                    return ast.Constant(value=True), ([] if p_.name is None else [(p_.name, copy.deepcopy(s_))])
                inner = pat(p_.pattern, s_)
                if inner is None:
                    return None
                return inner[0], inner[1] + ([(p_.name, copy.deepcopy(s_))] if p_.name else [])
            if isinstance(p_, ast.MatchClass) and not p_.patterns and not p_.kwd_patterns:
                return ast.Call(func=ast.Name(id="isinstance", ctx=ast.Load()), args=[copy.deepcopy(s_), p_.cls], keywords=[]), []
            if isinstance(p_, ast.MatchSequence) and not any(isinstance(x, ast.MatchStar) for x in p_.patterns) and s_ is subj and elem_subj is not None:
                if len(p_.patterns) != len(elem_subj):
                    return ast.Constant(value=False), []
                tests_e: list[ast.expr] = []
                binds_e = []
                for x, es in zip(p_.patterns, elem_subj):
                    r_ = pat(x, es)
                    if r_ is None:
                        return None
                    tests_e.append(r_[0])
                    binds_e += r_[1]
                return conj(tests_e), binds_e
            if elem_subj is not None and s_ is subj and not (isinstance(p_, ast.MatchAs) and p_.pattern is None and p_.name is None):
                return None   # a tuple subject matched by something else than sequences / the wildcard: left alone
            if isinstance(p_, ast.MatchSequence) and sum(isinstance(x, ast.MatchStar) for x in p_.patterns) == 1:
                # [*_, a, b]  /  [a, *_, b]: a sequence of at least that many items, the fixed positions counted from both ends
                si = next(i for i, x in enumerate(p_.patterns) if isinstance(x, ast.MatchStar))
                if p_.patterns[si].name is not None:
                    return None
                pre_p, post_p = p_.patterns[:si], p_.patterns[si + 1:]
                lencall = ast.Call(func=ast.Name(id="len", ctx=ast.Load()), args=[copy.deepcopy(s_)], keywords=[])
                tests_s: list[ast.expr] = []
                if not (isinstance(s_, ast.Attribute) and s_.attr in self.list_attrs):
                    tests_s.append(ast.Call(func=ast.Name(id="isinstance", ctx=ast.Load()),
                                            args=[copy.deepcopy(s_), ast.Tuple(elts=[ast.Name(id="tuple", ctx=ast.Load()), ast.Name(id="list", ctx=ast.Load())], ctx=ast.Load())], keywords=[]))
                tests_s.append(ast.Compare(left=lencall, ops=[ast.GtE()], comparators=[ast.Constant(value=len(pre_p) + len(post_p))]))
                binds_s = []
                for i, x in enumerate(pre_p):
                    r_ = pat(x, ast.Subscript(value=copy.deepcopy(s_), slice=ast.Constant(value=i), ctx=ast.Load()))
                    if r_ is None:
                        return None
                    tests_s.append(r_[0])
                    binds_s += r_[1]
                for j, x in enumerate(post_p):
                    idx = ast.UnaryOp(op=ast.USub(), operand=ast.Constant(value=len(post_p) - j))
                    r_ = pat(x, ast.Subscript(value=copy.deepcopy(s_), slice=idx, ctx=ast.Load()))
                    if r_ is None:
                        return None
                    tests_s.append(r_[0])
                    binds_s += r_[1]
                return conj(tests_s), binds_s
            if isinstance(p_, ast.MatchSequence) and not any(isinstance(x, ast.MatchStar) for x in p_.patterns):
                if (s_ is subj and tuple_len is not None and tuple_len == len(p_.patterns)) or \
                        (isinstance(s_, ast.Name) and elem_tuple_len.get(s_.id) == len(p_.patterns)):
                    # the subject is an entry of a table that only ever holds tuples of this length (or the None default of
                    # .get/.pop): "is a sequence of length n" is "is not None"
                    tests = [ast.Compare(left=copy.deepcopy(s_), ops=[ast.IsNot()], comparators=[ast.Constant(value=None)])]
                    binds = []
                    for i, x in enumerate(p_.patterns):
                        r_ = pat(x, ast.Subscript(value=copy.deepcopy(s_), slice=ast.Constant(value=i), ctx=ast.Load()))
                        if r_ is None:
                            return None
                        tests.append(r_[0])
                        binds += r_[1]
                    return conj(tests), binds
                lentest: ast.expr = ast.Compare(left=ast.Call(func=ast.Name(id="len", ctx=ast.Load()), args=[copy.deepcopy(s_)], keywords=[]), ops=[ast.Eq()],
                                                comparators=[ast.Constant(value=len(p_.patterns))])
                if s_ is subj and split_max1 and len(p_.patterns) == 1:
                    # one or two items: "exactly one" is "not two"
                    lentest.comparators = [ast.Constant(value=2)]  # type: ignore[attr-defined]
                    lentest = ast.UnaryOp(op=ast.Not(), operand=lentest)
                tests: list[ast.expr] = [lentest]
                if not (s_ is subj and split_list):
                    tests.insert(0, ast.Call(func=ast.Name(id="isinstance", ctx=ast.Load()),
                                             args=[copy.deepcopy(s_), ast.Tuple(elts=[ast.Name(id="tuple", ctx=ast.Load()), ast.Name(id="list", ctx=ast.Load())], ctx=ast.Load())], keywords=[]))
                binds = []
                for i, x in enumerate(p_.patterns):
                    r_ = pat(x, ast.Subscript(value=copy.deepcopy(s_), slice=ast.Constant(value=i), ctx=ast.Load()))
                    if r_ is None:
                        return None
                    tests.append(r_[0])
                    binds += r_[1]
                return conj(tests), binds
            return None
        parsed = []
        for c in st.cases:
            r = pat(c.pattern, subj)
            if r is None:
                return None
            test, binds = r
            parsed.append((test, [ast.Assign(targets=[ast.Name(id=n, ctx=ast.Store())], value=v) for (n, v) in binds], c.guard, c.body))
        nflag = [0]

        def build(cases) -> list[ast.stmt]:
            if not cases:
                return []
            test, bind_stmts, guard, body = cases[0]
            rest = cases[1:]
            if isinstance(test, ast.Constant) and test.value is False:
                return build(rest)
            if guard is None or not bind_stmts:
                cond = conj([test] + ([guard] if guard is not None else []))
                if isinstance(cond, ast.Constant) and cond.value is True:
                    return bind_stmts + body
                return [ast.If(test=cond, body=bind_stmts + body, orelse=build(rest))]
            # a guard that may use the captures: bind first, then test; later cases run only if this one did not match
            nflag[0] += 1
            flag = f"matched_h{nflag[0]}"
            out_: list[ast.stmt] = [ast.Assign(targets=[ast.Name(id=flag, ctx=ast.Store())], value=ast.Constant(value=False))]
            inner = ast.If(test=guard, body=[ast.Assign(targets=[ast.Name(id=flag, ctx=ast.Store())], value=ast.Constant(value=True))] + body, orelse=[])
            if isinstance(test, ast.Constant) and test.value is True:
                out_ += bind_stmts + [inner]
            else:
                out_.append(ast.If(test=test, body=bind_stmts + [inner], orelse=[]))
            tail = build(rest)
            if tail:
                out_.append(ast.If(test=ast.UnaryOp(op=ast.Not(), operand=ast.Name(id=flag, ctx=ast.Load())), body=tail, orelse=[]))
            return out_
        out = pre + build(parsed)
        for x in out:
            ast.fix_missing_locations(ast.copy_location(x, st))
        self.hit("match->if-chain")
        return self.block(out)

    def unwalrus(self, st: ast.stmt) -> list[ast.stmt] | None:
        """if A and (x := E) != K: S          if A: x = E; if x != K: S
           while A and (x := E): B     ==>    while A: x = E; if not x: break; B
        (the assignment expression in the last operand of the test; no loop-else)"""
        test = st.test
        ops = list(test.values) if isinstance(test, ast.BoolOp) and isinstance(test.op, ast.And) else [test]
        last = ops[-1]

        def split(e: ast.AST):
            """(assignment, remaining test) when e is `(x := E)` or a comparison/not whose leftmost operand is one"""
            if isinstance(e, ast.NamedExpr):
                return ast.Assign(targets=[ast.Name(id=e.target.id, ctx=ast.Store())], value=e.value), ast.Name(id=e.target.id, ctx=ast.Load())
            if isinstance(e, ast.Compare) and isinstance(e.left, ast.NamedExpr):
                n = e.left
                return (ast.Assign(targets=[ast.Name(id=n.target.id, ctx=ast.Store())], value=n.value),
                        ast.Compare(left=ast.Name(id=n.target.id, ctx=ast.Load()), ops=e.ops, comparators=e.comparators))
            if isinstance(e, ast.UnaryOp) and isinstance(e.op, ast.Not):
                r = split(e.operand)
                if r is not None:
                    return r[0], ast.UnaryOp(op=ast.Not(), operand=r[1])
            return None
        sp = split(last)
        if sp is None or any(isinstance(x, ast.NamedExpr) for o in ops[:-1] for x in ast.walk(o)):
            return None
        asg, rest_test = sp
        if any(isinstance(x, ast.NamedExpr) for x in ast.walk(rest_test)) or any(isinstance(x, ast.NamedExpr) for x in ast.walk(asg.value)):
            return None
        ast.copy_location(asg, st)
        head = ops[:-1]
        head_test = None if not head else (head[0] if len(head) == 1 else ast.BoolOp(op=ast.And(), values=head))
        if isinstance(st, ast.While):
            if st.orelse:
                return None
            brk = ast.If(test=_negate(rest_test), body=[ast.Break()], orelse=[])
            new = ast.While(test=head_test if head_test is not None else ast.Constant(value=True), body=[asg, brk] + st.body, orelse=[])
            self.hit("walrus-in-while-test")
            return [ast.fix_missing_locations(ast.copy_location(new, st))]
        inner = ast.If(test=rest_test, body=st.body, orelse=copy.deepcopy(st.orelse))
        self.hit("walrus-in-if-test")
        if head_test is None:
            return [ast.fix_missing_locations(asg), ast.fix_missing_locations(ast.copy_location(inner, st))]
        outer = ast.If(test=head_test, body=[asg, inner], orelse=st.orelse)
        return [ast.fix_missing_locations(ast.copy_location(outer, st))]

    def index_reads_then_del(self, stmts: list[ast.stmt]) -> list[ast.stmt]:
        """t = L[-3]; k = L[-2]; v = L[-1]; del L[-2:]    ==>    v = L.pop(); k = L.pop(); t = L[-1]"""
        i = 0
        while i < len(stmts):
            j = i
            reads: dict[int, str] = {}
            base = None
            while j < len(stmts):
                a = stmts[j]
                if isinstance(a, ast.Assign) and len(a.targets) == 1 and isinstance(a.targets[0], ast.Name) and isinstance(a.value, ast.Subscript) \
                        and isinstance(a.value.slice, ast.UnaryOp) and isinstance(a.value.slice.op, ast.USub) and isinstance(a.value.slice.operand, ast.Constant) \
                        and isinstance(a.value.slice.operand.value, int) and _movable(a.value.value) and (base is None or ast.dump(a.value.value) == base):
                    base = ast.dump(a.value.value)
                    reads[a.value.slice.operand.value] = a.targets[0].id
                    j += 1
                else:
                    break
            if reads and j < len(stmts):
                d = stmts[j]
                if isinstance(d, ast.Delete) and len(d.targets) == 1 and isinstance(d.targets[0], ast.Subscript) and ast.dump(d.targets[0].value) == base \
                        and isinstance(d.targets[0].slice, ast.Slice) and d.targets[0].slice.upper is None and d.targets[0].slice.step is None \
                        and isinstance(d.targets[0].slice.lower, ast.UnaryOp) and isinstance(d.targets[0].slice.lower.op, ast.USub) \
                        and isinstance(d.targets[0].slice.lower.operand, ast.Constant) and isinstance(d.targets[0].slice.lower.operand.value, int):
                    m = d.targets[0].slice.lower.operand.value
                    if m >= 1 and all(k in reads for k in range(1, m + 1)) and len(set(reads.values())) == len(reads):
                        L = d.targets[0].value
                        new: list[ast.stmt] = []
                        for k in range(1, m + 1):
                            call = ast.Call(func=ast.Attribute(value=copy.deepcopy(L), attr="pop", ctx=ast.Load()), args=[], keywords=[])
                            new.append(ast.Assign(targets=[ast.Name(id=reads[k], ctx=ast.Store())], value=call))
                        for k in sorted(reads):
                            if k > m:
                                sub = ast.Subscript(value=copy.deepcopy(L), slice=ast.UnaryOp(op=ast.USub(), operand=ast.Constant(value=k - m)), ctx=ast.Load())
                                new.append(ast.Assign(targets=[ast.Name(id=reads[k], ctx=ast.Store())], value=sub))
                        for x in new:
                            ast.fix_missing_locations(ast.copy_location(x, d))
                        stmts = stmts[:i] + new + stmts[j + 1:]
                        self.hit("index-reads+del->pops")
                        i += len(new)
                        continue
            i = max(j, i + 1)
        return stmts

    def slice_pops(self, stmts: list[ast.stmt]) -> list[ast.stmt]:
        """a, b = L[-2:]; del L[-2:]   ==>   b = L.pop(); a = L.pop()     (the same values and the same final L whenever L holds at
        least that many items; with fewer both spellings raise)"""
        i = 0
        while i + 1 < len(stmts):
            a, d = stmts[i], stmts[i + 1]
            if isinstance(a, ast.Assign) and len(a.targets) == 1 and isinstance(a.targets[0], ast.Tuple) and all(isinstance(x, ast.Name) for x in a.targets[0].elts) \
                    and isinstance(a.value, ast.Subscript) and isinstance(a.value.slice, ast.Slice) and a.value.slice.upper is None and a.value.slice.step is None \
                    and isinstance(d, ast.Delete) and len(d.targets) == 1 and isinstance(d.targets[0], ast.Subscript) \
                    and ast.dump(d.targets[0].value) == ast.dump(a.value.value) and ast.dump(d.targets[0].slice) == ast.dump(a.value.slice):
                lo = a.value.slice.lower
                n = len(a.targets[0].elts)
                if isinstance(lo, ast.UnaryOp) and isinstance(lo.op, ast.USub) and isinstance(lo.operand, ast.Constant) and lo.operand.value == n:
                    new = []
                    for x in reversed(a.targets[0].elts):
                        call = ast.Call(func=ast.Attribute(value=copy.deepcopy(a.value.value), attr="pop", ctx=ast.Load()), args=[], keywords=[])
                        new.append(ast.fix_missing_locations(ast.copy_location(ast.Assign(targets=[ast.Name(id=x.id, ctx=ast.Store())], value=call), a)))
                    stmts = stmts[:i] + new + stmts[i + 2:]
                    self.hit("slice-unpack+del->pops")
                    i += n
                    continue
            i += 1
        return stmts

    def sink_into_arms(self, stmts: list[ast.stmt]) -> list[ast.stmt]:
        i = 0
        while i + 1 < len(stmts):
            g, s_ = stmts[i], stmts[i + 1]
            if isinstance(g, ast.If) and g.body and g.orelse and isinstance(s_, ast.Expr) and isinstance(s_.value, ast.Call):
                used = {x.id for x in ast.walk(s_) if isinstance(x, ast.Name) and isinstance(x.ctx, ast.Load)}

                def tail_assigns(arm: list[ast.stmt]) -> dict[str, ast.AST]:
                    got: dict[str, ast.AST] = {}
                    for t in reversed(arm):
                        if isinstance(t, ast.Assign) and len(t.targets) == 1 and isinstance(t.targets[0], ast.Name) and t.targets[0].id not in got \
                                and _movable(t.value):
                            got[t.targets[0].id] = t.value
                        else:
                            break
                    return got
                A, B = tail_assigns(g.body), tail_assigns(g.orelse)
                V = (set(A) & set(B) & used)
                rest = stmts[:i] + stmts[i + 2:]
                elsewhere = {x.id for t in rest for x in ast.walk(t) if isinstance(x, ast.Name)}
                inner = {x.id for arm, d in ((g.body, A), (g.orelse, B)) for t in arm[:len(arm) - len(d)] for x in ast.walk(t) if isinstance(x, ast.Name)}
                inner |= {x.id for x in ast.walk(g.test) if isinstance(x, ast.Name)}
                V = {v for v in V if v not in elsewhere and v not in inner}
                # values must not mention another sunk variable
                if V and not any(isinstance(x, ast.Name) and x.id in V for d in (A, B) for v in V for x in ast.walk(d[v])):
                    for arm_name, d in (("body", A), ("orelse", B)):
                        arm = getattr(g, arm_name)
                        keep = [t for t in arm if not (isinstance(t, ast.Assign) and len(t.targets) == 1 and isinstance(t.targets[0], ast.Name)
                                                       and t.targets[0].id in V and t.value is d.get(t.targets[0].id))]
                        call = _Subst({v: d[v] for v in V}).visit(copy.deepcopy(s_))
                        call.value = self.expr(call.value)   # (the substituted literals may now repeat a default)
                        setattr(g, arm_name, keep + [ast.fix_missing_locations(call)])
                    self.hit("consumer-sunk-into-arms")
                    stmts = stmts[:i + 1] + stmts[i + 2:]
                    continue
            i += 1
        return stmts

    # ------------------------------------------------------------ literal loops
    def unroll_literal_loops(self, fn: ast.AST) -> None:
        """for a, b in ((A1, B1), (A2, B2)): BODY   ==>   BODY[a:=A1, b:=B1]; BODY[a:=A2, b:=B2]
        (literal sequence of at most 6 literal rows, no break/continue/else, loop variables used only inside the loop)"""
        def rows_of(it: ast.AST, width: int | None):
            if not isinstance(it, (ast.Tuple, ast.List)) or not (1 <= len(it.elts) <= 6):
                return None
            rows = []
            for r in it.elts:
                if width is None:
                    if not _movable(r):
                        return None
                    rows.append([r])
                else:
                    if not isinstance(r, (ast.Tuple, ast.List)) or len(r.elts) != width or not all(_movable(x) for x in r.elts):
                        return None
                    rows.append(list(r.elts))
            return rows

        def visit(block: list[ast.stmt]) -> list[ast.stmt]:
            out: list[ast.stmt] = []
            for st in block:
                for fld in ("body", "orelse", "finalbody"):
                    v = getattr(st, fld, None)
                    if isinstance(v, list) and v and isinstance(v[0], ast.stmt) and not isinstance(st, (ast.FunctionDef, ast.AsyncFunctionDef, ast.ClassDef)):
                        setattr(st, fld, visit(v))
                for h in getattr(st, "handlers", []) or []:
                    h.body = visit(h.body)
                if isinstance(st, ast.For) and not st.orelse and isinstance(st.target, ast.Name) and isinstance(st.iter, ast.Call) and not st.iter.keywords \
                        and ast.unparse(st.iter.func).split(".")[-1] == "chain" and len(st.iter.args) >= 2 \
                        and any(isinstance(a, (ast.Tuple, ast.List)) for a in st.iter.args) \
                        and not any(isinstance(x, (ast.Break, ast.Continue, ast.Yield, ast.YieldFrom, ast.Return)) for b in st.body for x in ast.walk(b)):
                    # for x in chain(A, (c,), B): BODY   ==>   for x in A: BODY;  BODY[x:=c];  for x in B: BODY
                    inside = {id(x) for x in ast.walk(st)}
                    used_outside = any(isinstance(x, ast.Name) and x.id == st.target.id and id(x) not in inside for x in ast.walk(fn))
                    if not used_outside and all((isinstance(a, (ast.Tuple, ast.List)) and all(_movable(e) for e in a.elts)) or _movable(a) or isinstance(a, ast.Call) for a in st.iter.args):
                        segs: list[ast.stmt] = []
                        for a in st.iter.args:
                            if isinstance(a, (ast.Tuple, ast.List)):
                                for e in a.elts:
                                    for b in st.body:
                                        segs.extend(self.simplify_consts([ast.fix_missing_locations(_Subst({st.target.id: e}).visit(copy.deepcopy(b)))]))
                            else:
                                segs.append(ast.fix_missing_locations(ast.copy_location(ast.For(target=copy.deepcopy(st.target), iter=a, body=copy.deepcopy(st.body), orelse=[]), st)))
                        self.hit("chain-loop-split")
                        out.extend(visit(segs))
                        continue
                if isinstance(st, ast.For) and not st.orelse and isinstance(st.target, (ast.Name, ast.Tuple)) \
                        and not any(isinstance(x, (ast.Break, ast.Continue, ast.Yield, ast.YieldFrom, ast.Return)) for b in st.body for x in ast.walk(b)):
                    names = [st.target.id] if isinstance(st.target, ast.Name) else [x.id for x in st.target.elts if isinstance(x, ast.Name)]
                    width = None if isinstance(st.target, ast.Name) else len(st.target.elts)
                    rows = rows_of(st.iter, width) if len(names) == (width or 1) else None
                    outside = {x.id for t in ast.walk(fn) if t is not st for x in ([t] if isinstance(t, ast.Name) else [])} if rows else set()
                    inside = {id(x) for x in ast.walk(st)}
                    used_outside = any(isinstance(x, ast.Name) and x.id in names and id(x) not in inside for x in ast.walk(fn)) if rows else True
                    stored_inside = any(isinstance(x, ast.Name) and x.id in names and isinstance(x.ctx, ast.Store) for b in st.body for x in ast.walk(b)) if rows else True
                    if rows and not used_outside and not stored_inside:
                        for r in rows:
                            m = dict(zip(names, r))
                            for b in st.body:
                                nb = _Subst(m).visit(copy.deepcopy(b))
                                out.extend(self.simplify_consts([ast.fix_missing_locations(nb)]))
                        self.hit("literal-loop-unrolled")
                        continue
                out.append(st)
            return out
        fn.body = visit(fn.body)

    def simplify_consts(self, block: list[ast.stmt]) -> list[ast.stmt]:
        """fold comparisons of two literals and and/or with a literal operand; drop `if <literal>` arms"""
        out: list[ast.stmt] = []
        for st in block:
            for fld in ("body", "orelse", "finalbody"):
                v = getattr(st, fld, None)
                if isinstance(v, list) and v and isinstance(v[0], ast.stmt):
                    setattr(st, fld, self.simplify_consts(v))
            if isinstance(st, ast.If):
                st.test = _fold_bool(st.test)
                if isinstance(st.test, ast.Constant):
                    out.extend(st.body if st.test.value else st.orelse)
                    continue
            out.append(st)
        return out

    def list_builders(self, fn: ast.AST) -> None:
        """L = []; ...; L.append(X1); ...; L.append(X2); ...; a, b = L      ==>     ...; a = X1; ...; b = X2; ...
        (L a local used for nothing else; a, b simple names not otherwise touched between the first append and the unpack)"""
        def visit(block: list[ast.stmt]) -> None:
            for st in block:
                for fld in ("body", "orelse", "finalbody"):
                    v = getattr(st, fld, None)
                    if isinstance(v, list) and v and isinstance(v[0], ast.stmt) and not isinstance(st, (ast.FunctionDef, ast.AsyncFunctionDef, ast.ClassDef)):
                        visit(v)
                for h in getattr(st, "handlers", []) or []:
                    visit(h.body)
            for i, st in enumerate(block):
                if not (isinstance(st, ast.Assign) and len(st.targets) == 1 and isinstance(st.targets[0], ast.Name)
                        and isinstance(st.value, ast.List) and not st.value.elts):
                    continue
                L = st.targets[0].id
                uses = [x for x in ast.walk(fn) if isinstance(x, ast.Name) and x.id == L]
                apps = [(k, t) for k, t in enumerate(block) if k > i and isinstance(t, ast.Expr) and isinstance(t.value, ast.Call)
                        and isinstance(t.value.func, ast.Attribute) and t.value.func.attr == "append" and isinstance(t.value.func.value, ast.Name)
                        and t.value.func.value.id == L and len(t.value.args) == 1 and not t.value.keywords]
                unp = [(k, t) for k, t in enumerate(block) if k > i and isinstance(t, ast.Assign) and len(t.targets) == 1 and isinstance(t.targets[0], ast.Tuple)
                       and isinstance(t.value, ast.Name) and t.value.id == L and all(isinstance(x, ast.Name) for x in t.targets[0].elts)]
                if len(unp) != 1 or not apps or len(uses) != 1 + len(apps) + 1 or len(unp[0][1].targets[0].elts) != len(apps) or apps[-1][0] > unp[0][0]:
                    continue
                tnames = [x.id for x in unp[0][1].targets[0].elts]
                between = block[apps[0][0]:unp[0][0]]
                touched = {x.id for t in between for x in ast.walk(t) if isinstance(x, ast.Name)}
                if any(n in touched for n in tnames) or len(set(tnames)) != len(tnames):
                    continue
                for (k, t), n in zip(apps, tnames):
                    block[k] = ast.fix_missing_locations(ast.copy_location(ast.Assign(targets=[ast.Name(id=n, ctx=ast.Store())], value=t.value.args[0]), t))
                del block[unp[0][0]]
                del block[i]
                self.hit("list-builder->assignments")
                return visit(block)
        visit(fn.body)

    def field_shadows(self, fn: ast.AST) -> None:
        """buf = self.F; ...; buf += x; self.F = buf; ...; buf = self.F = y; ... use(buf)        ==>   the same with self.F for buf
        A local that shadows a field and is written back after each of its updates (scalar replacement by hand) is replaced by
        the field: L is first bound by `L = self.F`; every later store to L is `L = self.F = v` or is directly followed by
        `self.F = L`; a store to self.F that is not such a write-back is followed by no further read of L; no call of a method
        of the same class that stores F occurs in the function."""
        if not (fn.args.args and fn.args.args[0].arg == "self"):
            return
        body = fn.body

        def is_self_attr(e, F=None):
            return isinstance(e, ast.Attribute) and isinstance(e.value, ast.Name) and e.value.id == "self" and (F is None or e.attr == F)
        first = None
        for st in body:
            if isinstance(st, ast.Expr) and isinstance(st.value, ast.Constant):
                continue
            if isinstance(st, ast.Assign) and len(st.targets) == 1 and isinstance(st.targets[0], ast.Name) and is_self_attr(st.value) and st.value.attr in self.mutable_attrs:
                first = st
                break
            if isinstance(st, ast.Assign) and len(st.targets) == 1 and isinstance(st.targets[0], ast.Name) and not any(is_self_attr(x) for x in ast.walk(st.value)):
                continue   # other simple bindings may precede
            break
        if first is None:
            return
        L, F = first.targets[0].id, first.value.attr
        if any(isinstance(x, (ast.FunctionDef, ast.AsyncFunctionDef, ast.Lambda)) and any(isinstance(y, ast.Name) and y.id == L for y in ast.walk(x)) for x in ast.walk(fn) if x is not fn):
            return
        # no call of a sibling method that stores F
        for x in ast.walk(fn):
            if isinstance(x, ast.Call) and is_self_attr(x.func) and F in self.method_stores.get(x.func.attr, ()):
                return
        ok = [True]
        stale = [False]
        nback = [0]

        def scan(block: list[ast.stmt]) -> list[ast.stmt]:
            out: list[ast.stmt] = []
            i = 0
            while i < len(block):
                st = block[i]
                nxt = block[i + 1] if i + 1 < len(block) else None
                if st is first:
                    i += 1
                    continue
                stores_L = [x for x in ast.walk(st) if isinstance(x, ast.Name) and x.id == L and isinstance(x.ctx, (ast.Store, ast.Del))] if not isinstance(st, (ast.If, ast.While, ast.For, ast.Try, ast.With)) else []
                if isinstance(st, (ast.If, ast.While, ast.For, ast.Try, ast.With)):
                    hdr_reads = [x for fld in ("test", "iter") for e in [getattr(st, fld, None)] if e is not None for x in ast.walk(e) if isinstance(x, ast.Name) and x.id == L]
                    if hdr_reads and stale[0]:
                        ok[0] = False
                    for fld in ("body", "orelse", "finalbody"):
                        v = getattr(st, fld, None)
                        if isinstance(v, list) and v and isinstance(v[0], ast.stmt):
                            setattr(st, fld, scan(v))
                    for h in getattr(st, "handlers", []) or []:
                        h.body = scan(h.body)
                    out.append(st)
                    i += 1
                    continue
                reads_L = [x for x in ast.walk(st) if isinstance(x, ast.Name) and x.id == L and isinstance(x.ctx, ast.Load)]
                if reads_L and stale[0]:
                    ok[0] = False
                if isinstance(st, ast.Assign) and len(st.targets) == 2 and any(isinstance(t, ast.Name) and t.id == L for t in st.targets) and any(is_self_attr(t, F) for t in st.targets):
                    # L = self.F = v
                    out.append(ast.copy_location(ast.Assign(targets=[t for t in st.targets if is_self_attr(t, F)], value=st.value), st))
                    nback[0] += 1
                    i += 1
                    continue
                if stores_L:
                    # must be written back by the next statement
                    if isinstance(nxt, ast.Assign) and len(nxt.targets) == 1 and is_self_attr(nxt.targets[0], F) and isinstance(nxt.value, ast.Name) and nxt.value.id == L \
                            and isinstance(st, (ast.Assign, ast.AugAssign)):
                        out.append(st)      # names replaced below: becomes `self.F = v` / `self.F += v`
                        nback[0] += 1
                        i += 2
                        continue
                    ok[0] = False
                if isinstance(st, (ast.Assign, ast.AugAssign)) and any(is_self_attr(t, F) for t in (st.targets if isinstance(st, ast.Assign) else [st.target])):
                    stale[0] = True      # a store to the field that is not a write-back of L: L must not be read afterwards
                out.append(st)
                i += 1
            return out
        saved = copy.deepcopy(body)
        new_body = scan(body)
        if not ok[0] or nback[0] == 0:
            # (a local that is only read is a *snapshot* of the field -- taken on purpose where another thread may re-bind it)
            fn.body = saved
            return

        class _R(ast.NodeTransformer):
            def visit_Name(self_, x):  # noqa: N805
                if x.id == L:
                    return ast.copy_location(ast.Attribute(value=ast.Name(id="self", ctx=ast.Load()), attr=F, ctx=x.ctx), x)
                return x
        fn.body = [ast.fix_missing_locations(_R().visit(st)) for st in new_body]
        self.hit("field-shadow-local-eliminated")

    def callee_aliases(self, fn: ast.AST) -> None:
        """append = self.stack.append ... append(x)          ==>   self.stack.append(x)
           get = partial(items.get, block=False) ... get()   ==>   items.get(block=False)
        for a local bound once to a bound method / function (or a partial of one) and used only as a callee, where the
        object the method is taken from cannot change in between: a name assigned at most once in the function, or an
        attribute chain of `self`/such a name through attributes that the package assigns only in __init__ / class bodies."""
        stores: dict[str, int] = {}
        for x in ast.walk(fn):
            if isinstance(x, ast.Name) and isinstance(x.ctx, (ast.Store, ast.Del)):
                stores[x.id] = stores.get(x.id, 0) + 1
            elif isinstance(x, (ast.FunctionDef, ast.AsyncFunctionDef, ast.ClassDef)) and x is not fn:
                stores[x.name] = stores.get(x.name, 0) + 1
            elif isinstance(x, ast.ExceptHandler) and x.name:
                stores[x.name] = stores.get(x.name, 0) + 2
            elif isinstance(x, (ast.Global, ast.Nonlocal)):
                for n_ in x.names:
                    stores[n_] = stores.get(n_, 0) + 2
            elif isinstance(x, ast.arg):
                stores[x.arg] = stores.get(x.arg, 0)
        loop_targets = {y.id for x in ast.walk(fn) if isinstance(x, (ast.For, ast.comprehension)) for y in ast.walk(x.target) if isinstance(y, ast.Name)}

        def stable_obj(e: ast.AST) -> bool:
            if isinstance(e, ast.Name):
                return stores.get(e.id, 0) <= 1 and e.id not in loop_targets
            if isinstance(e, ast.Attribute):
                return e.attr not in self.mutable_attrs and stable_obj(e.value)
            return False

        def callee_of(v: ast.AST):
            """(function expression, leading args, keywords) if v is a bound method / function reference or a partial of one"""
            if isinstance(v, ast.Attribute) and stable_obj(v.value):
                return v, [], []
            if isinstance(v, ast.Call) and isinstance(v.func, ast.Name) and v.func.id == "partial" and v.args \
                    and not any(isinstance(a, ast.Starred) for a in v.args) and all(k.arg is not None for k in v.keywords) \
                    and all(_movable(a) for a in v.args[1:]) and all(_movable(k.value) for k in v.keywords):
                f0 = v.args[0]
                if (isinstance(f0, ast.Attribute) and stable_obj(f0.value)) or (isinstance(f0, ast.Name) and stores.get(f0.id, 0) <= 1 and f0.id not in loop_targets):
                    # arguments frozen at partial() time must be stable too
                    if all(not isinstance(x, ast.Name) or (stores.get(x.id, 0) <= 1 and x.id not in loop_targets) for a in list(v.args[1:]) + [k.value for k in v.keywords] for x in ast.walk(a)):
                        return f0, list(v.args[1:]), list(v.keywords)
            return None
        cands: dict[str, tuple] = {}
        assigns: dict[str, ast.Assign] = {}
        objs: dict[str, ast.AST] = {}
        for x in ast.walk(fn):
            if isinstance(x, ast.Assign) and len(x.targets) == 1 and isinstance(x.targets[0], ast.Name) and stores.get(x.targets[0].id) == 1:
                if isinstance(x.value, ast.Attribute) and stable_obj(x.value) and isinstance(x.value.value, (ast.Name, ast.Attribute)):
                    # running = self._running  (an attribute nothing re-binds): the local IS that object, wherever it is used
                    objs[x.targets[0].id] = x.value
                    assigns[x.targets[0].id] = x
                    continue
                c = callee_of(x.value)
                if c is not None:
                    cands[x.targets[0].id] = c
                    assigns[x.targets[0].id] = x
        if objs:
            for x in ast.walk(fn):
                if isinstance(x, ast.Name) and isinstance(x.ctx, ast.Load) and x.id in objs:
                    a = assigns[x.id]
                    if (x.lineno, x.col_offset) <= (a.lineno, a.col_offset):
                        objs.pop(x.id, None)
            # (closures reading the name see the same object: the chain is re-evaluated there, which is the same for a stable chain
            #  rooted in names the closure can see -- parameters and locals of the enclosing function that are bound once)
        if objs:
            class _O(ast.NodeTransformer):
                def visit_Name(self_, x):  # noqa: N805
                    if isinstance(x.ctx, ast.Load) and x.id in objs:
                        return ast.copy_location(copy.deepcopy(objs[x.id]), x)
                    return x
            _O().visit(fn)
            ast.fix_missing_locations(fn)
            for _ in objs:
                self.hit("object-alias-inlined")
        if not cands and not objs:
            return
        # every load of the alias must be the function of a call, later in the text than the binding
        parents: dict[int, ast.AST] = {}
        for p_ in ast.walk(fn):
            for ch in ast.iter_child_nodes(p_):
                parents[id(ch)] = p_
        for x in ast.walk(fn):
            if isinstance(x, ast.Name) and isinstance(x.ctx, ast.Load) and x.id in cands:
                par = parents.get(id(x))
                a = assigns[x.id]
                if not (isinstance(par, ast.Call) and par.func is x) or (x.lineno, x.col_offset) <= (a.lineno, a.col_offset):
                    cands.pop(x.id, None)
        if not cands and not objs:
            return

        class _R(ast.NodeTransformer):
            def visit_Call(self_, node: ast.Call):  # noqa: N805
                self_.generic_visit(node)
                if isinstance(node.func, ast.Name) and node.func.id in cands:
                    f0, a0, k0 = cands[node.func.id]
                    node.func = copy.deepcopy(f0)
                    node.args = [copy.deepcopy(a) for a in a0] + list(node.args)
                    node.keywords = [copy.deepcopy(k) for k in k0 if k.arg not in {kk.arg for kk in node.keywords}] + list(node.keywords)
                    ast.fix_missing_locations(node)
                return node
        doomed = {id(assigns[n]) for n in list(cands) + list(objs)}

        def strip(block: list[ast.stmt]) -> list[ast.stmt]:
            out = []
            for st in block:
                if id(st) in doomed:
                    continue
                for fld in ("body", "orelse", "finalbody"):
                    v = getattr(st, fld, None)
                    if isinstance(v, list) and v and isinstance(v[0], ast.stmt):
                        nv = strip(v)
                        setattr(st, fld, nv if nv or fld != "body" else [ast.copy_location(ast.Pass(), st)])
                for h in getattr(st, "handlers", []) or []:
                    h.body = strip(h.body) or [ast.copy_location(ast.Pass(), h)]
                out.append(st)
            return out
        _R().visit(fn)
        fn.body = strip(fn.body) or [ast.copy_location(ast.Pass(), fn)]
        for _ in cands:
            self.hit("callee-alias-inlined")
        # the rewritten calls may now be in a form another idiom normalises (keywords, defaults, Class.method(obj))
        ex = _Expr(self)
        fn.body = [ex.visit(st) for st in fn.body]

    def lookup_or_return(self, body: list[ast.stmt]) -> list[ast.stmt]:
        """function body:   try: T = D.pop(K) | D[K]            T = D.pop(K, None) | D.get(K)
                            except KeyError: return      ==>    if T is not None: REST
                            REST"""
        for i, st in enumerate(body):
            if not (isinstance(st, ast.Try) and not st.finalbody and not st.orelse and len(st.handlers) == 1 and len(st.body) == 1
                    and _is_keyerror(st.handlers[0].type) and not st.handlers[0].name and i + 1 < len(body)):
                continue
            h = st.handlers[0].body
            if not (len(h) == 1 and isinstance(h[0], ast.Return) and (h[0].value is None or (isinstance(h[0].value, ast.Constant) and h[0].value.value is None))):
                continue
            b = st.body[0]
            if not (isinstance(b, ast.Assign) and len(b.targets) == 1 and isinstance(b.targets[0], (ast.Name, ast.Tuple))):
                continue
            v = b.value
            if isinstance(v, ast.Subscript) and isinstance(v.value, ast.Attribute) and not isinstance(v.slice, ast.Slice) and v.value.attr in self.nonnone:
                call = ast.Call(func=ast.Attribute(value=v.value, attr="get", ctx=ast.Load()), args=[v.slice], keywords=[])
            elif isinstance(v, ast.Call) and isinstance(v.func, ast.Attribute) and v.func.attr == "pop" and len(v.args) == 1 and not v.keywords \
                    and isinstance(v.func.value, ast.Attribute) and v.func.value.attr in self.nonnone:
                call = ast.Call(func=v.func, args=[v.args[0], ast.Constant(value=None)], keywords=[])
            else:
                continue
            rest = body[i + 1:]
            if any(isinstance(x, (ast.Yield, ast.YieldFrom)) for t in body for x in ast.walk(t)):
                continue
            if isinstance(b.targets[0], ast.Name):
                name = b.targets[0].id
                pre: list[ast.stmt] = []
            else:
                name = "item_h"
                pre = [ast.Assign(targets=b.targets, value=ast.Name(id=name, ctx=ast.Load()))]
            first = ast.fix_missing_locations(ast.copy_location(ast.Assign(targets=[ast.Name(id=name, ctx=ast.Store())], value=call), st))
            for x in pre:
                ast.fix_missing_locations(ast.copy_location(x, st))
            test = ast.Compare(left=ast.Name(id=name, ctx=ast.Load()), ops=[ast.IsNot()], comparators=[ast.Constant(value=None)])
            second = ast.fix_missing_locations(ast.copy_location(ast.If(test=test, body=pre + self.lookup_or_return(rest), orelse=[]), st))
            self.hit("try-lookup-return->guarded-rest")
            return body[:i] + [first, second]
        return body

    in_function = 0

    def stmt(self, st: ast.stmt) -> list[ast.stmt]:
        if isinstance(st, (ast.FunctionDef, ast.AsyncFunctionDef)):
            self.in_function += 1
            try:
                return self.stmt_(st)
            finally:
                self.in_function -= 1
        if isinstance(st, ast.ClassDef):
            saved, self.in_function = self.in_function, 0
            try:
                self.derived_fields(st)
                if st.name not in self.subclassed:
                    # @classmethod def make(cls, ..): return cls(..)   ==>   return ClassName(..)     (the class has no subclass in the package)
                    for m in st.body:
                        if isinstance(m, ast.FunctionDef) and any(ast.unparse(d) == "classmethod" for d in m.decorator_list) and m.args.args:
                            c0 = m.args.args[0].arg
                            if not any(isinstance(x, ast.Name) and x.id == c0 and isinstance(x.ctx, ast.Store) for x in ast.walk(m)):
                                for x in ast.walk(m):
                                    if isinstance(x, ast.Call) and isinstance(x.func, ast.Name) and x.func.id == c0:
                                        x.func = ast.copy_location(ast.Name(id=st.name, ctx=ast.Load()), x.func)
                                        self.hit("cls()->ClassName()")
                return self.stmt_(st)
            finally:
                self.in_function = saved
        return self.stmt_(st)

    def stmt_(self, st: ast.stmt) -> list[ast.stmt]:
        # children first
        for fld in ("body", "orelse", "finalbody"):
            v = getattr(st, fld, None)
            if isinstance(v, list) and v and isinstance(v[0], ast.stmt):
                setattr(st, fld, self.block(v))
        for h in getattr(st, "handlers", []) or []:
            h.body = self.block(h.body)
            # except self._STOP:  with the class/module constant _STOP = (A, B)   ==>   except (A, B):
            t_ = h.type
            nm_ = t_.attr if isinstance(t_, ast.Attribute) and isinstance(t_.value, ast.Name) and t_.value.id in ("self", "cls") else (t_.id if isinstance(t_, ast.Name) else None)
            if nm_ is not None and nm_ in self.exc_tuples:
                h.type = ast.fix_missing_locations(ast.copy_location(copy.deepcopy(self.exc_tuples[nm_]), t_))
                self.hit("named-exception-tuple-inlined")
        if isinstance(st, ast.Match):
            for c in st.cases:
                c.body = self.block(c.body)
        # expressions of this statement (not those of nested statements: they were visited above)
        for fld, v in list(ast.iter_fields(st)):
            if isinstance(v, ast.expr):
                setattr(st, fld, self.expr(v))
            elif isinstance(v, list) and v and isinstance(v[0], ast.expr):
                setattr(st, fld, [self.expr(x) for x in v])
            elif isinstance(v, list) and v and isinstance(v[0], ast.withitem):
                for w in v:
                    w.context_expr = self.expr(w.context_expr)
            elif isinstance(v, list) and v and isinstance(v[0], ast.keyword):
                for k in v:
                    k.value = self.expr(k.value)
        if isinstance(st, (ast.FunctionDef, ast.AsyncFunctionDef)):
            st.body = self.lookup_or_return(st.body)
            self.unroll_literal_loops(st)
            self.list_builders(st)
            self.callee_aliases(st)
            self.field_shadows(st)
        if isinstance(st, ast.Assign) and len(st.targets) == 1 and isinstance(st.targets[0], ast.Subscript) and isinstance(st.targets[0].slice, ast.Slice) \
                and st.targets[0].slice.upper is None and st.targets[0].slice.step is None and st.targets[0].slice.lower is not None \
                and isinstance(st.value, ast.List) and len(st.value.elts) == 1 and not isinstance(st.value.elts[0], ast.Starred) and _movable(st.targets[0].value):
            # L[a:] = [x]   ==>   del L[a:]; L.append(x)
            tgt = st.targets[0]
            d = ast.Delete(targets=[ast.Subscript(value=tgt.value, slice=tgt.slice, ctx=ast.Del())])
            ap = ast.Expr(value=ast.Call(func=ast.Attribute(value=copy.deepcopy(tgt.value), attr="append", ctx=ast.Load()), args=[st.value.elts[0]], keywords=[]))
            self.hit("tail-slice-assign->del+append")
            return [ast.fix_missing_locations(ast.copy_location(d, st)), ast.fix_missing_locations(ast.copy_location(ap, st))]
        if isinstance(st, ast.Assign) and len(st.targets) == 1 and isinstance(st.targets[0], ast.Tuple) and isinstance(st.value, ast.Tuple) \
                and len(st.targets[0].elts) == len(st.value.elts) >= 2 and all(isinstance(t, ast.Name) for t in st.targets[0].elts) \
                and all(isinstance(v, (ast.Name, ast.Attribute, ast.Constant)) and _movable(v) for v in st.value.elts) and self.in_function:
            # a, b = X, Y   ==>   a = X; b = Y        (plain loads that do not mention the names being bound)
            names_ = {t.id for t in st.targets[0].elts}
            if len(names_) == len(st.targets[0].elts) and not any(isinstance(x, ast.Name) and x.id in names_ for v in st.value.elts for x in ast.walk(v)):
                self.hit("parallel-assignment-of-loads->sequential")
                return [ast.fix_missing_locations(ast.copy_location(ast.Assign(targets=[t], value=v), st)) for t, v in zip(st.targets[0].elts, st.value.elts)]
        if isinstance(st, ast.AnnAssign) and st.value is None and isinstance(st.target, ast.Name) and self.in_function:
            self.hit("bare-local-annotation-dropped")   # `x: T` inside a function neither binds nor evaluates anything
            return []
        if isinstance(st, ast.Expr) and isinstance(st.value, ast.Call) and isinstance(st.value.func, ast.Name) and st.value.func.id == "setattr" \
                and len(st.value.args) == 3 and not st.value.keywords and isinstance(st.value.args[1], ast.Constant) and isinstance(st.value.args[1].value, str) \
                and st.value.args[1].value.isidentifier() and _movable(st.value.args[0]):
            # setattr(x, "name", v)  ==>  x.name = v
            new = ast.Assign(targets=[ast.Attribute(value=st.value.args[0], attr=st.value.args[1].value, ctx=ast.Store())], value=st.value.args[2])
            self.hit("setattr-literal->assignment")
            return [ast.fix_missing_locations(ast.copy_location(new, st))]
        if isinstance(st, (ast.Expr, ast.Assign)) and isinstance(st.value, ast.Call) and not any(isinstance(a, ast.Starred) for a in st.value.args):
            # f(p, A if c else B)   ==>   if c: f(p, A) else: f(p, B)       (what precedes the conditional argument is plain loads)
            ix = [i_ for i_, a in enumerate(st.value.args) if isinstance(a, ast.IfExp)]
            if len(ix) == 1 and _movable(st.value.func) and all(_movable(a) for a in st.value.args[:ix[0]]) and _movable(st.value.args[ix[0]].test) \
                    and not any(isinstance(k.value, ast.IfExp) for k in st.value.keywords):
                ie = st.value.args[ix[0]]
                arms = []
                for val in (ie.body, ie.orelse):
                    c2 = copy.deepcopy(st)
                    c2.value.args[ix[0]] = copy.deepcopy(val)
                    arms.append(ast.fix_missing_locations(c2))
                self.hit("conditional-argument->if/else")
                new_if = ast.fix_missing_locations(ast.copy_location(ast.If(test=ie.test, body=[arms[0]], orelse=[arms[1]]), st))
                return self.block([new_if])
        if isinstance(st, ast.With) and len(st.items) == 1 and isinstance(st.items[0].optional_vars, ast.Name) \
                and isinstance(st.items[0].context_expr, ast.Call) and not st.items[0].context_expr.args and not st.items[0].context_expr.keywords \
                and ast.unparse(st.items[0].context_expr.func).split(".")[-1] == "ExitStack":
            r = self.exitstack(st)
            if r is not None:
                return r
        if isinstance(st, ast.Match):
            r = self.unmatch(st)
            if r is not None:
                return r
        if isinstance(st, ast.For) and not st.orelse and isinstance(st.target, ast.Name):
            r = self.lazy_call_loop(st)
            if r is not None:
                return r
        if isinstance(st, (ast.If, ast.While)):
            r = self.unwalrus(st)
            if r is not None:
                return r
        if isinstance(st, ast.Try):
            r = self.try_lookup(st)
            if r is not None:
                return r
            r = self.try_getattr(st)
            if r is not None:
                return r
        if isinstance(st, ast.If):
            r = self.if_assert(st)
            if r is not None:
                return r
            if st.orelse and isinstance(st.test, ast.UnaryOp) and isinstance(st.test.op, ast.Not) \
                    and not (len(st.orelse) == 1 and isinstance(st.orelse[0], ast.If)):
                # if not C: A else: B  ==>  if C: B else: A
                self.hit("inverted-if")
                st.test, st.body, st.orelse = st.test.operand, st.orelse, st.body
        return [st]

    def family(self, name: str) -> set[str]:
        """the class, its ancestors and its descendants (by name, inside the package)"""
        out, work = set(), [name]
        while work:
            k = work.pop()
            if k in out:
                continue
            out.add(k)
            work.extend(self.class_bases.get(k, ()))
            work.extend(c for c, bs in self.class_bases.items() if k in bs)
        return out

    def never_rebound_on(self, cls: str, attr: str) -> bool:
        """no store of `.attr` outside an __init__ can target an instance of `cls`: every such store names its receiver's class, and none
        of those classes is related to `cls`"""
        fam = self.family(cls)
        stores = self.typed_stores.get(attr, [])
        return all(who is not None and not (who & fam) for who in stores)

    def derived_fields(self, cls: ast.ClassDef) -> None:
        """def __init__(self, ..): self.flag = <expression over fields that never change after construction>
           def m(self): if self.flag: ...          ==>          if <that expression>: ...
        (the field is stored exactly once in the package, in this __init__; its expression reads only constants and attribute
        chains of `self` whose attributes no function outside an __init__ ever stores)"""
        init = next((m for m in cls.body if isinstance(m, ast.FunctionDef) and m.name == "__init__"), None)
        if init is None:
            return
        derived: dict[str, ast.expr] = {}
        for x in init.body:
            if not (isinstance(x, ast.Assign) and len(x.targets) == 1 and isinstance(x.targets[0], ast.Attribute) and isinstance(x.targets[0].value, ast.Name)
                    and x.targets[0].value.id == "self" and isinstance(x.value, (ast.Compare, ast.BoolOp))):
                continue
            name = x.targets[0].attr
            if name in self.mutable_attrs or self.store_counts.get(name, 0) != 1:
                continue
            ok = True
            for y in ast.walk(x.value):
                if isinstance(y, ast.Name) and y.id != "self":
                    ok = False
                elif isinstance(y, ast.Attribute) and y.attr in self.mutable_attrs and not (
                        isinstance(y.value, ast.Name) and y.value.id == "self" and self.never_rebound_on(cls.name, y.attr)):
                    ok = False
                elif isinstance(y, (ast.Call, ast.Subscript, ast.Lambda, ast.NamedExpr, ast.Await)):
                    ok = False
            if ok:
                derived[name] = x.value
        if not derived:
            return
        n = self

        class T(ast.NodeTransformer):
            def visit_Attribute(self_, node):  # noqa: N805
                self_.generic_visit(node)
                if isinstance(node.ctx, ast.Load) and isinstance(node.value, ast.Name) and node.value.id == "self" and node.attr in derived:
                    n.hit("derived-field-inlined")
                    return ast.copy_location(copy.deepcopy(derived[node.attr]), node)
                return node
        for m in cls.body:
            if isinstance(m, (ast.FunctionDef, ast.AsyncFunctionDef)) and m.name != "__init__":
                T().visit(m)
                ast.fix_missing_locations(m)

    def lazy_call_loop(self, st: ast.For) -> list[ast.stmt] | None:
        """for c in iter(F, S): B                          while True: c = F();  if c == S: break;   B
           for c in takewhile(P, map(F, repeat(A))): B ==> while True: c = F(A); if not P(c): break; B
        (an endless stream of calls cut by a sentinel or a predicate; `continue` in B re-enters at the call in both forms)"""
        tgt = st.target.id

        def last(e: ast.AST) -> str:
            return ast.unparse(e).split(".")[-1]

        def apply(f: ast.AST, args: list[ast.expr]) -> ast.expr | None:
            if isinstance(f, ast.Lambda):
                a = f.args
                if a.vararg or a.kwarg or a.kwonlyargs or a.defaults or len(a.posonlyargs + a.args) != len(args):
                    return None
                if not all(_movable(x) for x in args):
                    return None
                return _Subst({p_.arg: x for p_, x in zip(a.posonlyargs + a.args, args)}).visit(copy.deepcopy(f.body))
            if isinstance(f, ast.Name) and f.id == "bool" and len(args) == 1:
                return args[0]
            if _movable(f):
                return ast.Call(func=copy.deepcopy(f), args=args, keywords=[])
            return None

        def lazy(it: ast.AST):
            """(call producing the next item, [stop tests on the item])"""
            if not (isinstance(it, ast.Call) and not it.keywords):
                return None
            fn = last(it.func)
            if fn == "iter" and len(it.args) == 2 and _movable(it.args[1]):
                c = apply(it.args[0], [])
                if c is None:
                    return None
                return c, [ast.Compare(left=ast.Name(id=tgt, ctx=ast.Load()), ops=[ast.Eq()], comparators=[copy.deepcopy(it.args[1])])]
            if fn == "map" and len(it.args) >= 2 and all(isinstance(a, ast.Call) and last(a.func) == "repeat" and len(a.args) == 1 and not a.keywords and _movable(a.args[0]) for a in it.args[1:]):
                c = apply(it.args[0], [copy.deepcopy(a.args[0]) for a in it.args[1:]])
                return None if c is None else (c, [])
            if fn == "takewhile" and len(it.args) == 2:
                inner = lazy(it.args[1])
                if inner is None:
                    return None
                t = apply(it.args[0], [ast.Name(id=tgt, ctx=ast.Load())])
                if t is None:
                    return None
                return inner[0], inner[1] + [_negate(t)]
            return None
        r = lazy(st.iter)
        if r is None or not r[1]:
            return None
        call, stops = r
        body: list[ast.stmt] = [ast.Assign(targets=[ast.Name(id=tgt, ctx=ast.Store())], value=call)]
        for t in stops:
            body.append(ast.If(test=t, body=[ast.Break()], orelse=[]))
        new = ast.While(test=ast.Constant(value=True), body=body + st.body, orelse=[])
        self.hit("lazy-call-stream-loop->while")
        return [ast.fix_missing_locations(ast.copy_location(new, st))]

    def try_getattr(self, st: ast.Try) -> list[ast.stmt] | None:
        """try: T = X.name / except AttributeError: T = D     ==>     T = getattr(X, "name", D)"""
        if st.finalbody or st.orelse or len(st.handlers) != 1 or len(st.body) != 1 or len(st.handlers[0].body) != 1 or st.handlers[0].name:
            return None
        h = st.handlers[0]
        if h.type is None or ast.unparse(h.type) != "AttributeError":
            return None
        a, b = st.body[0], h.body[0]
        if not (isinstance(a, ast.Assign) and isinstance(b, ast.Assign) and len(a.targets) == 1 and len(b.targets) == 1 and isinstance(a.targets[0], ast.Name)
                and ast.dump(a.targets[0]) == ast.dump(b.targets[0]) and isinstance(a.value, ast.Attribute) and _movable(a.value.value) and _movable(b.value)):
            return None
        call = ast.Call(func=ast.Name(id="getattr", ctx=ast.Load()), args=[a.value.value, ast.Constant(value=a.value.attr), b.value], keywords=[])
        self.hit("try-attr-except-AttributeError->getattr")
        return [ast.fix_missing_locations(ast.copy_location(ast.Assign(targets=[a.targets[0]], value=call), st))]

    def try_lookup(self, st: ast.Try) -> list[ast.stmt] | None:
        if st.finalbody or len(st.handlers) != 1 or len(st.body) != 1 or not _is_keyerror(st.handlers[0].type) or st.handlers[0].name:
            return None
        b = st.body[0]
        h = st.handlers[0].body
        if not (isinstance(b, ast.Assign) and len(b.targets) == 1 and isinstance(b.targets[0], ast.Name)):
            return None
        T = b.targets[0].id

        def sets_const(hb: list[ast.stmt]):
            if len(hb) == 1 and isinstance(hb[0], ast.Assign) and len(hb[0].targets) == 1 and isinstance(hb[0].targets[0], ast.Name) \
                    and hb[0].targets[0].id == T and isinstance(hb[0].value, ast.Constant):
                return hb[0].value
            return None
        c = sets_const(h)
        is_pass = len(h) == 1 and isinstance(h[0], ast.Pass)
        v = b.value
        # T = D[K]
        if isinstance(v, ast.Subscript) and not isinstance(v.slice, ast.Slice) and c is not None and not st.orelse:
            args = [v.slice] + ([] if c.value is None else [c])
            new = ast.Assign(targets=b.targets, value=ast.Call(func=ast.Attribute(value=v.value, attr="get", ctx=ast.Load()), args=args, keywords=[]))
            self.hit("try-subscript->get")
            return [ast.fix_missing_locations(ast.copy_location(new, st))]
        container = None
        if isinstance(v, ast.Subscript) and isinstance(v.value, ast.Attribute):
            container = v.value.attr
        if isinstance(v, ast.Call) and isinstance(v.func, ast.Attribute) and v.func.attr == "pop" and len(v.args) == 1 and not v.keywords \
                and isinstance(v.func.value, ast.Attribute):
            container = v.func.value.attr
        if container is None or container not in self.nonnone or not (is_pass or (c is not None and c.value is None)):
            return None
        if isinstance(v, ast.Subscript):
            if isinstance(v.slice, ast.Slice):
                return None
            call = ast.Call(func=ast.Attribute(value=v.value, attr="get", ctx=ast.Load()), args=[v.slice], keywords=[])
            self.hit("try-subscript-else->get")
        else:
            call = ast.Call(func=v.func, args=[v.args[0], ast.Constant(value=None)], keywords=[])
            self.hit("try-pop-else->pop-default")
        first = ast.fix_missing_locations(ast.copy_location(ast.Assign(targets=b.targets, value=call), st))
        if not st.orelse:
            return [first]
        test = ast.Compare(left=ast.Name(id=T, ctx=ast.Load()), ops=[ast.IsNot()], comparators=[ast.Constant(value=None)])
        second = ast.fix_missing_locations(ast.copy_location(ast.If(test=test, body=st.orelse, orelse=[]), st.orelse[0]))
        return [first, second]

    def if_assert(self, st: ast.If) -> list[ast.stmt] | None:
        if st.orelse or len(st.body) != 1 or not isinstance(st.body[0], ast.Raise) or st.body[0].cause is not None:
            return None
        exc = st.body[0].exc
        msg = None
        if isinstance(exc, ast.Call) and isinstance(exc.func, ast.Name) and exc.func.id == "AssertionError" and len(exc.args) <= 1 and not exc.keywords:
            msg = exc.args[0] if exc.args else None
        elif not (isinstance(exc, ast.Name) and exc.id == "AssertionError"):
            return None
        self.hit("if-raise-AssertionError->assert")
        return [ast.fix_missing_locations(ast.copy_location(ast.Assert(test=_negate(st.test), msg=msg), st))]


class _Expr(ast.NodeTransformer):
    def __init__(self, n: Normaliser) -> None:
        self.n = n

    def visit_Compare(self, node: ast.Compare):
        self.generic_visit(node)
        # x[:n] == "lit" (len(lit) == n)  ==>  x.startswith("lit");   x[-n:] == "lit"  ==>  x.endswith("lit")
        if len(node.ops) == 1 and isinstance(node.ops[0], (ast.Eq, ast.NotEq)):
            l_, r_ = node.left, node.comparators[0]
            if isinstance(l_, ast.Constant) and isinstance(r_, ast.Subscript):
                l_, r_ = r_, l_
            if isinstance(l_, ast.Subscript) and isinstance(l_.slice, ast.Slice) and l_.slice.step is None and isinstance(r_, ast.Constant) \
                    and isinstance(r_.value, (str, bytes)) and len(r_.value) > 0 and _movable(l_.value):
                n = len(r_.value)
                lo, up = l_.slice.lower, l_.slice.upper
                meth = None
                if lo is None and isinstance(up, ast.Constant) and up.value == n:
                    meth = "startswith"
                elif up is None and isinstance(lo, ast.UnaryOp) and isinstance(lo.op, ast.USub) and isinstance(lo.operand, ast.Constant) and lo.operand.value == n:
                    meth = "endswith"
                if meth is not None:
                    new: ast.AST = ast.Call(func=ast.Attribute(value=l_.value, attr=meth, ctx=ast.Load()), args=[r_], keywords=[])
                    if isinstance(node.ops[0], ast.NotEq):
                        new = ast.UnaryOp(op=ast.Not(), operand=new)
                    self.n.hit("slice-compare->startswith/endswith")
                    return ast.fix_missing_locations(ast.copy_location(new, node))
        # x in range(a, b)  ==>  a <= x <= b - 1      (x a name: integers in this code base; `range` given literally or
        #                                              through a module constant assigned once)
        if len(node.ops) == 1 and isinstance(node.ops[0], (ast.In, ast.NotIn)) and isinstance(node.left, (ast.Name, ast.Attribute)):
            r = node.comparators[0]
            if isinstance(r, ast.Name) and r.id in self.n.ranges:
                r = self.n.ranges[r.id]
            if isinstance(r, ast.Call) and isinstance(r.func, ast.Name) and r.func.id == "range" and 1 <= len(r.args) <= 2 and not r.keywords:
                lo = r.args[0] if len(r.args) == 2 else ast.Constant(value=0)
                hi = r.args[-1]
                upper: ast.cmpop = ast.LtE()
                if isinstance(hi, ast.BinOp) and isinstance(hi.op, ast.Add) and isinstance(hi.right, ast.Constant) and hi.right.value == 1:
                    hi = hi.left
                else:
                    upper = ast.Lt()
                new: ast.AST = ast.Compare(left=copy.deepcopy(lo), ops=[ast.LtE(), upper], comparators=[node.left, copy.deepcopy(hi)])
                if isinstance(node.ops[0], ast.NotIn):
                    new = ast.UnaryOp(op=ast.Not(), operand=new)
                self.n.hit("in-range->chain")
                return ast.fix_missing_locations(ast.copy_location(new, node))
        return node

    def visit_Lambda(self, node):
        node.body = self.visit(node.body)
        return node

    def _comp(self, node):
        self.generic_visit(node)
        r = _fuse_comprehension(node)
        if r is not None:
            self.n.hit("nested-comprehension-fused")
            return r
        return node
    visit_GeneratorExp = visit_ListComp = visit_SetComp = _comp

    def visit_Call(self, node: ast.Call):
        self.generic_visit(node)
        f = node.func
        # b"".join((a, b))
        if isinstance(f, ast.Attribute) and f.attr == "join" and isinstance(f.value, ast.Constant) and f.value.value in (b"", "") \
                and len(node.args) == 1 and not node.keywords and isinstance(node.args[0], (ast.Tuple, ast.List)) \
                and len(node.args[0].elts) >= 2 and not any(isinstance(x, ast.Starred) for x in node.args[0].elts):
            acc = node.args[0].elts[0]
            for x in node.args[0].elts[1:]:
                acc = ast.BinOp(left=acc, op=ast.Add(), right=x)
            self.n.hit("join->concat")
            return ast.fix_missing_locations(ast.copy_location(acc, node))
        # map(attrgetter("a.b"), X) -> (e.a.b for e in X);  filter(None, G) -> (e for e in G if e);  set(<genexp>) -> {..}
        if isinstance(f, ast.Name) and f.id == "map" and len(node.args) == 2 and isinstance(node.args[0], ast.Name) and node.args[0].id in self.n.attrgetters:
            node.args[0] = copy.deepcopy(self.n.attrgetters[node.args[0].id])   # a module constant `g = attrgetter("a.b")`
        if isinstance(f, ast.Name) and f.id == "map" and len(node.args) == 2 and not node.keywords and isinstance(node.args[0], ast.Call) \
                and ast.unparse(node.args[0].func).split(".")[-1] == "attrgetter" and len(node.args[0].args) == 1 and isinstance(node.args[0].args[0], ast.Constant) \
                and isinstance(node.args[0].args[0].value, str) and all(p_.isidentifier() for p_ in node.args[0].args[0].value.split(".")):
            elt: ast.expr = ast.Name(id="e_h", ctx=ast.Load())
            for part in node.args[0].args[0].value.split("."):
                elt = ast.Attribute(value=elt, attr=part, ctx=ast.Load())
            self.n.hit("map(attrgetter)->genexp")
            return ast.fix_missing_locations(ast.copy_location(ast.GeneratorExp(elt=elt, generators=[ast.comprehension(target=ast.Name(id="e_h", ctx=ast.Store()), iter=node.args[1], ifs=[], is_async=0)]), node))
        if isinstance(f, ast.Name) and f.id == "filter" and len(node.args) == 2 and not node.keywords and isinstance(node.args[0], ast.Constant) and node.args[0].value is None \
                and isinstance(node.args[1], ast.GeneratorExp) and len(node.args[1].generators) == 1 and _movable(node.args[1].elt):
            g0 = node.args[1].generators[0]
            self.n.hit("filter(None)->genexp")
            return ast.fix_missing_locations(ast.copy_location(ast.GeneratorExp(elt=node.args[1].elt, generators=[ast.comprehension(target=g0.target, iter=g0.iter, ifs=list(g0.ifs) + [copy.deepcopy(node.args[1].elt)], is_async=0)]), node))
        # L.copy()  ==>  list(L)       (an attribute that is only ever bound to freshly built lists)
        if isinstance(f, ast.Attribute) and f.attr == "copy" and not node.args and not node.keywords and isinstance(f.value, ast.Attribute) and f.value.attr in self.n.list_attrs:
            self.n.hit("list.copy()->list()")
            return ast.fix_missing_locations(ast.copy_location(ast.Call(func=ast.Name(id="list", ctx=ast.Load()), args=[f.value], keywords=[]), node))
        # X.__contains__(k)  ==>  k in X
        if isinstance(f, ast.Attribute) and f.attr == "__contains__" and len(node.args) == 1 and not node.keywords and not isinstance(node.args[0], ast.Starred) and _movable(f.value):
            self.n.hit("__contains__-call->in")
            return ast.fix_missing_locations(ast.copy_location(ast.Compare(left=node.args[0], ops=[ast.In()], comparators=[f.value]), node))
        # filter(P, G) / filterfalse(P, G)  ==>  (e for e in G if [not] P(e))
        if ast.unparse(f).split(".")[-1] in ("filter", "filterfalse") and not (isinstance(f, ast.Attribute) and not isinstance(f.value, ast.Name)) \
                and len(node.args) == 2 and not node.keywords and not (isinstance(node.args[0], ast.Constant) and node.args[0].value is None):
            P = node.args[0]
            ev_: ast.expr = ast.Name(id="e_h", ctx=ast.Load())
            test: ast.expr | None = None
            if isinstance(P, ast.Attribute) and P.attr == "__contains__" and _movable(P.value):
                test = ast.Compare(left=ev_, ops=[ast.In()], comparators=[P.value])
            elif isinstance(P, ast.Lambda) and len(P.args.args) == 1 and not (P.args.vararg or P.args.kwarg or P.args.kwonlyargs or P.args.defaults or P.args.posonlyargs):
                test = _Subst({P.args.args[0].arg: ev_}).visit(copy.deepcopy(P.body))
            elif isinstance(P, (ast.Name, ast.Attribute)) and _movable(P):
                test = ev_ if isinstance(P, ast.Name) and P.id == "bool" else ast.Call(func=P, args=[ev_], keywords=[])
            if test is not None:
                if ast.unparse(f).split(".")[-1] == "filterfalse":
                    test = _negate(test)
                self.n.hit("filter(P)->genexp")
                new_g = ast.GeneratorExp(elt=ast.Name(id="e_h", ctx=ast.Load()),
                                         generators=[ast.comprehension(target=ast.Name(id="e_h", ctx=ast.Store()), iter=node.args[1], ifs=[test], is_async=0)])
                new_g = ast.fix_missing_locations(ast.copy_location(new_g, node))
                return _fuse_comprehension(new_g) or new_g
        if isinstance(f, ast.Name) and f.id in ("set", "list") and len(node.args) == 1 and not node.keywords and isinstance(node.args[0], ast.GeneratorExp):
            self.n.hit("set(genexp)->comprehension")
            cls_ = ast.SetComp if f.id == "set" else ast.ListComp
            return ast.fix_missing_locations(ast.copy_location(cls_(elt=node.args[0].elt, generators=node.args[0].generators), node))
        # Class.method(obj, a)  ==>  obj.method(a)      (a plain method of a class of the package that has no subclass: no other dispatch possible)
        if isinstance(f, ast.Attribute) and isinstance(f.value, ast.Name) and f.value.id in self.n.plain_methods and f.attr in self.n.plain_methods[f.value.id] \
                and f.value.id not in self.n.subclassed and node.args and not isinstance(node.args[0], ast.Starred) and _movable(node.args[0]) \
                and not (isinstance(node.args[0], ast.Name) and node.args[0].id in ("self", "cls")):
            node.func = ast.copy_location(ast.Attribute(value=node.args[0], attr=f.attr, ctx=ast.Load()), f)
            node.args = node.args[1:]
            self.n.hit("Class.method(obj)->obj.method()")
            f = node.func
        # f(*(a, b))  ==>  f(a, b)
        if any(isinstance(a, ast.Starred) and isinstance(a.value, (ast.Tuple, ast.List)) and not any(isinstance(x, ast.Starred) for x in a.value.elts) for a in node.args):
            na: list[ast.expr] = []
            for a in node.args:
                if isinstance(a, ast.Starred) and isinstance(a.value, (ast.Tuple, ast.List)) and not any(isinstance(x, ast.Starred) for x in a.value.elts):
                    na.extend(a.value.elts)
                else:
                    na.append(a)
            node.args = na
            self.n.hit("starred-literal-spliced")
        # an explicit "no timeout":  x.wait(timeout=None) / x.get(timeout=None) / x.join(None)  ==>  x.wait() / x.get() / x.join()
        nm_ = f.attr if isinstance(f, ast.Attribute) else None
        if nm_ in ("get", "wait", "join", "receive", "waitclose", "waitfinish", "waitall"):
            kept = [k for k in node.keywords if not (k.arg == "timeout" and isinstance(k.value, ast.Constant) and k.value.value is None)]
            if len(kept) != len(node.keywords):
                node.keywords = kept
                self.n.hit("timeout=None dropped")
            if nm_ != "get" and len(node.args) == 1 and not node.keywords and isinstance(node.args[0], ast.Constant) and node.args[0].value is None:
                node.args = []
                self.n.hit("timeout=None dropped")
        # keywords naming exactly the next positional parameters
        if node.keywords and all(k.arg is not None for k in node.keywords) and not any(isinstance(a, ast.Starred) for a in node.args):
            name = f.attr if isinstance(f, ast.Attribute) else (f.id if isinstance(f, ast.Name) else None)
            sig = self.n.sigs.table.get(name) if name else None
            if sig is not None:
                p = len(node.args)
                kws = {k.arg: k.value for k in node.keywords}
                nxt = [n_ for (n_, _d) in sig[p:p + len(kws)]]
                if len(kws) == len(node.keywords) and set(nxt) == set(kws) and len(nxt) == len(kws):
                    node.args = list(node.args) + [kws[n_] for n_ in nxt]
                    node.keywords = []
                    self.n.hit("keywords->positional")
        # f(a, 0, b"") where 0 and b"" are the literal defaults of the trailing parameters  ==>  f(a)
        if not node.keywords and node.args and not any(isinstance(a, ast.Starred) for a in node.args):
            name = f.attr if isinstance(f, ast.Attribute) else (f.id if isinstance(f, ast.Name) else None)
            sig = self.n.sigs.table.get(name) if name else None
            if sig is not None and len(node.args) <= len(sig):
                while node.args:
                    i = len(node.args) - 1
                    d = sig[i][1]
                    a = node.args[i]
                    if d is not None and d[0] == "const" and isinstance(a, ast.Constant) and repr(a.value) == d[1]:
                        node.args = node.args[:-1]
                        self.n.hit("explicit-default-dropped")
                    else:
                        break
        return node


def instantiate_factories(trees: list[ast.Module], n: Normaliser) -> None:
    """def make(p): def f(self, ...): BODY(p); return f            class C:
       class C: m = make(A)                               ==>         def m(self, ...): BODY(A)
    (module-level factory whose body is one nested def and its return; literal/name arguments)"""
    factories: dict[str, tuple[ast.FunctionDef, ast.FunctionDef]] = {}
    for t in trees:
        for st in t.body:
            if isinstance(st, ast.FunctionDef) and not st.decorator_list:
                body = [x for x in st.body if not (isinstance(x, ast.Expr) and isinstance(x.value, ast.Constant))]
                a = st.args
                if len(body) == 2 and isinstance(body[0], ast.FunctionDef) and isinstance(body[1], ast.Return) and isinstance(body[1].value, ast.Name) \
                        and body[1].value.id == body[0].name and not (a.vararg or a.kwarg or a.kwonlyargs or a.defaults or a.posonlyargs) and not body[0].decorator_list:
                    params = {x.arg for x in a.args}
                    inner = body[0]
                    rebinds = any(isinstance(x, ast.Name) and x.id in params and isinstance(x.ctx, (ast.Store, ast.Del)) for x in ast.walk(inner)) \
                        or any(x.arg in params for x in inner.args.args + inner.args.kwonlyargs + inner.args.posonlyargs) \
                        or any(isinstance(x, (ast.Nonlocal, ast.Global)) for x in ast.walk(inner))
                    if not rebinds:
                        factories[st.name] = (st, inner)
    if not factories:
        return
    for t in trees:
        for cls in ast.walk(t):
            if not isinstance(cls, ast.ClassDef):
                continue
            for i, st in enumerate(cls.body):
                if isinstance(st, ast.Assign) and len(st.targets) == 1 and isinstance(st.targets[0], ast.Name) and isinstance(st.value, ast.Call) \
                        and isinstance(st.value.func, ast.Name) and st.value.func.id in factories and not st.value.keywords \
                        and all(_movable(a) for a in st.value.args):
                    fac, inner = factories[st.value.func.id]
                    if len(st.value.args) != len(fac.args.args):
                        continue
                    m = {p.arg: a for p, a in zip(fac.args.args, st.value.args)}
                    new = copy.deepcopy(inner)
                    new.name = st.targets[0].id
                    new.body = [_Subst(m).visit(b) for b in new.body]
                    for x in ast.walk(new):
                        ast.copy_location(x, st) if hasattr(x, "lineno") else None
                    ast.fix_missing_locations(new)
                    cls.body[i] = new
                    n.hit("closure-factory-instantiated")


def desugar_int_enums(trees: list[ast.Module], n: Normaliser) -> None:
    """class Code(enum.IntEnum): A = 1; B = 2     -- an IntEnum with literal int members is a family of named ints:
       Code.A -> 1;  Code.A.name -> "A";  Code.A.value / int(Code.A) -> 1;  X = Code.A; X.name -> "A";
       map(int, Code) / list(Code) / tuple(Code) -> (1, 2);  e.value / int(e) for a parameter annotated `e: Code` -> e
    (values compare, hash and index dicts like the ints they are; execnet never serialises the members themselves)"""
    enums: dict[str, list[tuple[str, int]]] = {}
    for t in trees:
        for c in ast.walk(t):
            if isinstance(c, ast.ClassDef) and any(ast.unparse(b).split(".")[-1] in ("IntEnum", "IntFlag") for b in c.bases):
                members = []
                ok = True
                for st in c.body:
                    if isinstance(st, ast.Assign) and len(st.targets) == 1 and isinstance(st.targets[0], ast.Name):
                        if isinstance(st.value, ast.Constant) and isinstance(st.value.value, int) and not isinstance(st.value.value, bool):
                            members.append((st.targets[0].id, st.value.value))
                        elif not st.targets[0].id.startswith("_"):
                            ok = False
                    elif isinstance(st, (ast.FunctionDef, ast.AsyncFunctionDef)) and st.name in ("__new__", "_missing_", "__int__", "__eq__", "__hash__", "_generate_next_value_"):
                        ok = False
                if ok and members:
                    enums[c.name] = members
    if not enums:
        return
    # names bound once (class or module level) directly to a member:  X = Code.A
    alias: dict[str, tuple[str, str]] = {}
    counts: dict[str, int] = {}
    in_enum = {id(x) for t in trees for c in ast.walk(t) if isinstance(c, ast.ClassDef) and c.name in enums for x in c.body}
    for t in trees:
        for st in ast.walk(t):
            if id(st) in in_enum:
                continue
            if isinstance(st, ast.Assign) and len(st.targets) == 1 and isinstance(st.targets[0], ast.Name):
                counts[st.targets[0].id] = counts.get(st.targets[0].id, 0) + 1
                v = st.value
                if isinstance(v, ast.Attribute) and isinstance(v.value, ast.Name) and v.value.id in enums and v.attr in dict(enums[v.value.id]):
                    alias[st.targets[0].id] = (v.value.id, v.attr)
    alias = {k: v for k, v in alias.items() if counts.get(k) == 1}

    def member_of(e: ast.AST):
        if isinstance(e, ast.Attribute) and isinstance(e.value, ast.Name) and e.value.id in enums and e.attr in dict(enums[e.value.id]):
            return e.value.id, e.attr
        if isinstance(e, ast.Name) and e.id in alias and isinstance(e.ctx, ast.Load):
            return alias[e.id]
        if isinstance(e, ast.Attribute) and isinstance(e.value, ast.Name) and e.attr in alias and e.value.id[:1].isupper():
            return alias[e.attr]          # Message.STATUS where the class attribute STATUS = Code.STATUS
        return None

    class _E(ast.NodeTransformer):
        def __init__(self_) -> None:  # noqa: N805
            self_.typed: list[dict[str, str]] = [{}]

        def visit_FunctionDef(self_, node):  # noqa: N805
            sc = {}
            for a in node.args.posonlyargs + node.args.args + node.args.kwonlyargs:
                if a.annotation is not None and ast.unparse(a.annotation).strip("'\"") in enums:
                    sc[a.arg] = ast.unparse(a.annotation).strip("'\"")
            self_.typed.append(sc)
            self_.generic_visit(node)
            self_.typed.pop()
            return node
        visit_AsyncFunctionDef = visit_FunctionDef

        def visit_Attribute(self_, node):  # noqa: N805
            # Code.A.name / X.name / e.value
            if node.attr in ("name", "value", "_value_", "_name_") and isinstance(node.ctx, ast.Load):
                m = member_of(node.value)
                if m is not None:
                    n.hit("int-enum-desugared")
                    val = m[1] if node.attr in ("name", "_name_") else dict(enums[m[0]])[m[1]]
                    return ast.copy_location(ast.Constant(value=val), node)
                if node.attr in ("value", "_value_") and isinstance(node.value, ast.Name) and node.value.id in self_.typed[-1]:
                    n.hit("int-enum-desugared")
                    return node.value
            self_.generic_visit(node)
            if isinstance(node.ctx, ast.Load) and isinstance(node.value, ast.Name) and node.value.id in enums and node.attr in dict(enums[node.value.id]):
                n.hit("int-enum-desugared")
                return ast.copy_location(ast.Constant(value=dict(enums[node.value.id])[node.attr]), node)
            return node

        def visit_Call(self_, node):  # noqa: N805
            self_.generic_visit(node)
            f = node.func
            if isinstance(f, ast.Name) and f.id == "int" and len(node.args) == 1 and not node.keywords:
                a = node.args[0]
                if isinstance(a, ast.Name) and a.id in self_.typed[-1]:
                    return a
            if isinstance(f, ast.Name) and f.id in ("list", "tuple", "sorted") and len(node.args) == 1 and isinstance(node.args[0], ast.Name) and node.args[0].id in enums:
                n.hit("int-enum-desugared")
                return ast.copy_location(ast.Tuple(elts=[ast.Constant(value=v) for (_k, v) in enums[node.args[0].id]], ctx=ast.Load()), node)
            if isinstance(f, ast.Name) and f.id == "map" and len(node.args) == 2 and isinstance(node.args[0], ast.Name) and node.args[0].id == "int" \
                    and isinstance(node.args[1], ast.Name) and node.args[1].id in enums:
                n.hit("int-enum-desugared")
                return ast.copy_location(ast.Tuple(elts=[ast.Constant(value=v) for (_k, v) in enums[node.args[1].id]], ctx=ast.Load()), node)
            return node
    for t in trees:
        _E().visit(t)
        # a, b = (1, 2)  ==>  a = 1; b = 2   (so that the names fold like ordinary constants)
        for parent in ast.walk(t):
            body = getattr(parent, "body", None)
            if not isinstance(body, list):
                continue
            out = []
            for st in body:
                if isinstance(st, ast.Assign) and len(st.targets) == 1 and isinstance(st.targets[0], ast.Tuple) and isinstance(st.value, ast.Tuple) \
                        and len(st.targets[0].elts) == len(st.value.elts) and all(isinstance(x, ast.Name) for x in st.targets[0].elts) \
                        and all(isinstance(x, ast.Constant) for x in st.value.elts):
                    for tg, v in zip(st.targets[0].elts, st.value.elts):
                        out.append(ast.fix_missing_locations(ast.copy_location(ast.Assign(targets=[ast.Name(id=tg.id, ctx=ast.Store())], value=v), st)))
                    n.hit("literal-tuple-unpack-split")
                else:
                    out.append(st)
            parent.body = out
        ast.fix_missing_locations(t)


def desugar_registration_decorators(trees: list[ast.Module], n: Normaliser) -> None:
    """def reg(table, key):                         @reg(T, K)                 def f(..): ...
           def deco(func):                          def f(..): ...     ==>     T[K] = f
               [assert ..]; table[key] = func; return func
           return deco
    (a module-level decorator factory that only files the function in a table; the decorated name stays bound to the function)"""
    regs: dict[str, tuple[int, int]] = {}
    for t in trees:
        for fn in t.body:
            if not isinstance(fn, ast.FunctionDef) or fn.decorator_list or fn.args.vararg or fn.args.kwarg or fn.args.kwonlyargs or fn.args.defaults:
                continue
            body = [x for x in fn.body if not (isinstance(x, ast.Expr) and isinstance(x.value, ast.Constant) and isinstance(x.value.value, str))]
            if len(body) != 2 or not isinstance(body[0], ast.FunctionDef) or not (isinstance(body[1], ast.Return) and isinstance(body[1].value, ast.Name) and body[1].value.id == body[0].name):
                continue
            inner = body[0]
            if len(inner.args.args) != 1 or inner.args.vararg or inner.args.kwarg or inner.args.kwonlyargs or inner.decorator_list:
                continue
            fpar = inner.args.args[0].arg
            ibody = [x for x in inner.body if not isinstance(x, ast.Assert) and not (isinstance(x, ast.Expr) and isinstance(x.value, ast.Constant))]
            params = [a.arg for a in fn.args.args]
            if len(ibody) != 2 or not (isinstance(ibody[1], ast.Return) and isinstance(ibody[1].value, ast.Name) and ibody[1].value.id == fpar):
                continue
            a = ibody[0]
            if not (isinstance(a, ast.Assign) and len(a.targets) == 1 and isinstance(a.targets[0], ast.Subscript) and isinstance(a.targets[0].value, ast.Name)
                    and isinstance(a.targets[0].slice, ast.Name) and isinstance(a.value, ast.Name) and a.value.id == fpar
                    and a.targets[0].value.id in params and a.targets[0].slice.id in params):
                continue
            regs[fn.name] = (params.index(a.targets[0].value.id), params.index(a.targets[0].slice.id))
    if not regs:
        return

    def rewrite(body: list[ast.stmt]) -> list[ast.stmt]:
        out: list[ast.stmt] = []
        for st in body:
            if isinstance(st, ast.ClassDef):
                st.body = rewrite(st.body)
            if isinstance(st, ast.FunctionDef) and len(st.decorator_list) == 1 and isinstance(st.decorator_list[0], ast.Call) and isinstance(st.decorator_list[0].func, ast.Name) \
                    and st.decorator_list[0].func.id in regs and not st.decorator_list[0].keywords and not any(isinstance(x, ast.Starred) for x in st.decorator_list[0].args):
                d = st.decorator_list[0]
                ti, ki = regs[d.func.id]
                if max(ti, ki) < len(d.args):
                    st.decorator_list = []
                    store = ast.Assign(targets=[ast.Subscript(value=d.args[ti], slice=d.args[ki], ctx=ast.Store())], value=ast.Name(id=st.name, ctx=ast.Load()))
                    n.hit("registration-decorator->table-store")
                    out.append(st)
                    out.append(ast.fix_missing_locations(ast.copy_location(store, st)))
                    continue
            out.append(st)
        return out
    for t in trees:
        t.body = rewrite(t.body)


def desugar_translating_context_managers(trees: list[ast.Module], n: Normaliser) -> None:
    """class CM:                                                      with CM(A, M):           m_h = M
           def __init__(self, t, m): self.t = t; self.m = m               BODY         ==>     try: BODY
           def __enter__(self): return None                                                    except A: raise E(m_h) from None
           def __exit__(self, et, ev, tb):
               if et is not None and issubclass(et, self.t): raise E(self.m) from None
               return False
    (a hand-written context manager whose only effect is to translate one exception family into another; its constructor arguments are
    evaluated before the block, as in the original)"""
    cms: dict[str, dict] = {}
    for t in trees:
        for c in t.body:
            if not isinstance(c, ast.ClassDef) or c.bases or c.decorator_list:
                continue
            meths = {m.name: m for m in c.body if isinstance(m, ast.FunctionDef)}
            other = [x for x in c.body if not isinstance(x, ast.FunctionDef) and not (isinstance(x, ast.Expr) and isinstance(x.value, ast.Constant))
                     and not (isinstance(x, ast.Assign) and any(isinstance(tg, ast.Name) and tg.id == "__slots__" for tg in x.targets))]
            if other or set(meths) - {"__init__", "__enter__", "__exit__"} or "__exit__" not in meths or "__init__" not in meths:
                continue
            init, ex = meths["__init__"], meths["__exit__"]
            params = [a.arg for a in init.args.args[1:]]
            if init.args.vararg or init.args.kwarg or init.args.kwonlyargs or init.args.defaults:
                continue
            fields: dict[str, str] = {}
            ok = True
            for x in init.body:
                if isinstance(x, ast.Expr) and isinstance(x.value, ast.Constant):
                    continue
                if isinstance(x, ast.Assign) and len(x.targets) == 1 and isinstance(x.targets[0], ast.Attribute) and isinstance(x.targets[0].value, ast.Name) \
                        and x.targets[0].value.id == "self" and isinstance(x.value, ast.Name) and x.value.id in params:
                    fields[x.targets[0].attr] = x.value.id
                else:
                    ok = False
            en = meths.get("__enter__")
            if en is not None:
                eb = [x for x in en.body if not (isinstance(x, ast.Expr) and isinstance(x.value, ast.Constant))]
                if not (len(eb) == 1 and isinstance(eb[0], ast.Return) and (eb[0].value is None or (isinstance(eb[0].value, ast.Constant) and eb[0].value.value is None)
                                                                           or (isinstance(eb[0].value, ast.Name) and eb[0].value.id == "self"))):
                    ok = False
            xb = [x for x in ex.body if not (isinstance(x, ast.Expr) and isinstance(x.value, ast.Constant))]
            if not ok or len(ex.args.args) != 4 or not (1 <= len(xb) <= 2) or not isinstance(xb[0], ast.If) or xb[0].orelse or len(xb[0].body) != 1 or not isinstance(xb[0].body[0], ast.Raise):
                continue
            if len(xb) == 2 and not (isinstance(xb[1], ast.Return) and (xb[1].value is None or (isinstance(xb[1].value, ast.Constant) and not xb[1].value.value))):
                continue
            et = ex.args.args[1].arg
            test = xb[0].test
            parts = test.values if isinstance(test, ast.BoolOp) and isinstance(test.op, ast.And) else [test]
            sub = [p_ for p_ in parts if isinstance(p_, ast.Call) and isinstance(p_.func, ast.Name) and p_.func.id == "issubclass" and len(p_.args) == 2
                   and isinstance(p_.args[0], ast.Name) and p_.args[0].id == et and isinstance(p_.args[1], ast.Attribute) and isinstance(p_.args[1].value, ast.Name)
                   and p_.args[1].value.id == "self" and p_.args[1].attr in fields]
            rest = [p_ for p_ in parts if p_ not in sub]
            none_ok = all(isinstance(p_, ast.Compare) and isinstance(p_.left, ast.Name) and p_.left.id == et and len(p_.ops) == 1 and isinstance(p_.ops[0], ast.IsNot)
                          and isinstance(p_.comparators[0], ast.Constant) and p_.comparators[0].value is None for p_ in rest)
            if len(sub) != 1 or not none_ok:
                continue
            # the raise may only mention constructor fields through self
            raise_ = xb[0].body[0]
            names_ok = all(not (isinstance(y, ast.Name) and y.id in (et, ex.args.args[2].arg, ex.args.args[3].arg)) for y in ast.walk(raise_))
            selfs = [y for y in ast.walk(raise_) if isinstance(y, ast.Attribute) and isinstance(y.value, ast.Name) and y.value.id == "self"]
            if not names_ok or any(y.attr not in fields for y in selfs):
                continue
            cms[c.name] = {"params": params, "fields": fields, "type_field": sub[0].args[1].attr, "raise": raise_}
    if not cms:
        return
    counter = [0]

    class T(ast.NodeTransformer):
        def visit_With(self_, node: ast.With):  # noqa: N805
            self_.generic_visit(node)
            if len(node.items) != 1 or node.items[0].optional_vars is not None:
                return node
            ce = node.items[0].context_expr
            if not (isinstance(ce, ast.Call) and isinstance(ce.func, ast.Name) and ce.func.id in cms and not ce.keywords and not any(isinstance(a, ast.Starred) for a in ce.args)):
                return node
            info = cms[ce.func.id]
            if len(ce.args) != len(info["params"]):
                return node
            pre: list[ast.stmt] = []
            bound: dict[str, ast.expr] = {}
            for pname, a in zip(info["params"], ce.args):
                if isinstance(a, (ast.Constant, ast.Name)) or (isinstance(a, ast.Attribute) and _movable(a)):
                    bound[pname] = a
                else:
                    counter[0] += 1
                    nm = f"cm_h{counter[0]}"
                    pre.append(ast.Assign(targets=[ast.Name(id=nm, ctx=ast.Store())], value=a))
                    bound[pname] = ast.Name(id=nm, ctx=ast.Load())

            class S(ast.NodeTransformer):
                def visit_Attribute(self2, x):  # noqa: N805
                    self2.generic_visit(x)
                    if isinstance(x.value, ast.Name) and x.value.id == "self" and x.attr in info["fields"]:
                        return copy.deepcopy(bound[info["fields"][x.attr]])
                    return x
            r = S().visit(copy.deepcopy(info["raise"]))
            handler = ast.ExceptHandler(type=copy.deepcopy(bound[info["fields"][info["type_field"]]]), name=None, body=[r])
            new_try = ast.Try(body=node.body, handlers=[handler], orelse=[], finalbody=[])
            n.hit("translating-context-manager->try/except")
            out = pre + [new_try]
            for o in out:
                ast.fix_missing_locations(ast.copy_location(o, node))
            return out
    for t in trees:
        T().visit(t)
        ast.fix_missing_locations(t)


def normalise_idioms(trees: list[ast.Module]) -> dict[str, int]:
    n = Normaliser(trees)
    desugar_int_enums(trees, n)
    instantiate_factories(trees, n)
    desugar_registration_decorators(trees, n)
    desugar_translating_context_managers(trees, n)
    for t in trees:
        t.body = n.block(t.body)
        ast.fix_missing_locations(t)
    return dict(sorted(n.counts.items()))
