"""Obligations, findings, known-findings triage, evidence and exit codes."""

from __future__ import annotations

import ast
import json
import os
import sys
import time
import traceback
from dataclasses import dataclass, field
from typing import Any, Callable

from .index import AnalysisError, FuncInfo, Module, Repo, norm

VERIF = os.path.dirname(os.path.dirname(os.path.abspath(__file__)))
KNOWN_FILE = os.path.join(VERIF, "known_findings.json")
EVIDENCE_DIR = os.environ.get("VERIF_EVIDENCE_DIR", os.path.join(VERIF, "evidence"))


@dataclass
class Finding:
    prop: str
    rule: str  # obligation id, e.g. C14.a
    function: str  # short qualified function name
    construct: str  # normalised text of the offending construct
    file: str
    line: int
    message: str
    detail: dict = field(default_factory=dict)

    def key(self) -> tuple[str, str, str]:
        return (self.rule, self.function, self.construct)

    def to_json(self) -> dict:
        return {
            "property": self.prop,
            "rule": self.rule,
            "function": self.function,
            "construct": self.construct,
            "file": self.file,
            "line": self.line,
            "message": self.message,
            "detail": self.detail,
        }


class Obligation:
    def __init__(self, ctx: "Ctx", oid: str, title: str, nontrivial: bool = True) -> None:
        self.ctx = ctx
        self.id = oid
        self.title = title
        self.nontrivial = nontrivial
        self.sites: list[dict] = []
        self.findings: list[Finding] = []
        self.notes: list[str] = []
        self.error: str | None = None

    def __enter__(self) -> "Obligation":
        return self

    def __exit__(self, et, ev, tb) -> bool:
        # an obligation that cannot be analysed does not hide what the others decide:
        # it is recorded, the run continues, and the final status is exit 2 unless a
        # violation was established elsewhere (then exit 1 with the error reported too)
        if et is not None and issubclass(et, AnalysisError):
            self.error = str(ev)
            return True
        return False

    def site(self, where: FuncInfo | Module | None, node: ast.AST | None = None, what: str = "", **kw: Any) -> None:
        d: dict[str, Any] = {"what": what}
        if isinstance(where, FuncInfo):
            d["function"] = where.short
            d["file"] = where.module.rel
            d["line"] = getattr(node, "lineno", where.line) if node is not None else where.line
        elif isinstance(where, Module):
            d["file"] = where.rel
            d["line"] = getattr(node, "lineno", 1) if node is not None else 1
        if node is not None and not what:
            d["what"] = norm(node)[:120]
        d.update(kw)
        self.sites.append(d)

    def note(self, text: str) -> None:
        self.notes.append(text)

    def violation(self, where: FuncInfo | Module, node: ast.AST | None, message: str,
                  construct: str | None = None, **detail: Any) -> None:
        if isinstance(where, FuncInfo):
            fn, rel, line0 = where.short, where.module.rel, where.line
        else:
            fn, rel, line0 = f"<module {where.name}>", where.rel, 1
        line = getattr(node, "lineno", line0) if node is not None else line0
        cons = construct if construct is not None else (norm(node)[:200] if node is not None else "")
        f = Finding(self.ctx.prop, self.id, fn, cons, rel, line, message, detail)
        if f.key() not in {x.key() for x in self.findings}:
            self.findings.append(f)

    def require(self, cond: bool, message: str) -> None:
        """Instance floor / anchor shape: failing is an analysis error, not a violation."""
        if not cond:
            raise AnalysisError(f"{self.id}: {message}")


class Ctx:
    def __init__(self, repo: Repo, prop: str, tier: str, seed: int) -> None:
        self.repo = repo
        self.prop = prop
        self.tier = tier
        self.seed = seed
        self.obligations: list[Obligation] = []
        self.assumptions: list[str] = []
        self.trusted: list[str] = ["CPython ast / compile (parsing only; nothing in /repo is imported or run)"]
        self.decides: str = ""
        self.not_decided: str = ""
        self.extra: dict[str, Any] = {}

    def obligation(self, oid: str, title: str, nontrivial: bool = True) -> Obligation:
        ob = Obligation(self, oid, title, nontrivial)
        self.obligations.append(ob)
        return ob

    def assume(self, *names: str) -> None:
        for n in names:
            if n not in self.assumptions:
                self.assumptions.append(n)

    def trust(self, *names: str) -> None:
        for n in names:
            if n not in self.trusted:
                self.trusted.append(n)


class _Borrow:
    """A view of a Ctx under which another property's rule module runs with only selected obligations kept (renamed); everything else
    it establishes is discarded.  Used where a clause of one property is, literally, an obligation of another."""

    def __init__(self, ctx: "Ctx", mapping: dict[str, str]) -> None:
        self._ctx = ctx
        self._map = mapping
        self.repo, self.prop, self.tier, self.seed = ctx.repo, ctx.prop, ctx.tier, ctx.seed
        self.obligations: list[Obligation] = []
        self.assumptions: list[str] = []
        self.trusted: list[str] = []
        self.decides = self.not_decided = ""
        self.extra: dict[str, Any] = {}

    def obligation(self, oid: str, title: str, nontrivial: bool = True) -> Obligation:
        if oid in self._map:
            return self._ctx.obligation(self._map[oid], title, nontrivial)
        ob = Obligation(self, oid, title, nontrivial)   # type: ignore[arg-type]
        self.obligations.append(ob)
        return ob

    def assume(self, *names: str) -> None:
        pass

    def trust(self, *names: str) -> None:
        pass


_BORROWING: list[str] = []


def borrow(ctx: "Ctx", modname: str, mapping: dict[str, str]) -> None:
    """run sa.rules.<modname>.check and keep the obligations named in `mapping` under their new ids"""
    import importlib
    if modname in _BORROWING:
        return
    _BORROWING.append(modname)
    try:
        mod = importlib.import_module(f"sa.rules.{modname}")
        before = {o.id for o in ctx.obligations}
        mod.check(_Borrow(ctx, mapping))
        got = {o.id for o in ctx.obligations} - before
        missing = set(mapping.values()) - got
        if missing:
            raise AnalysisError(f"shared obligation(s) {sorted(missing)} not produced by {modname}")
    finally:
        _BORROWING.pop()


ASSUMPTIONS = {
    "A1": "A1: fewer than 2**30 channels are allocated per gateway (counter-derived ids fit '!i')",
    "A2": "A2: one frame's payload is below 2**31 bytes",
    "A3": "A3: writes to and closes of a pipe/socket do not block indefinitely",
    "A4": "A4: a user-supplied stream passed to load() raises only EOFError/OSError from read",
    "A5": "A5: parameter annotations are honoured by callers inside the repo (mypy strict)",
    "A6": "A6: interpreter resource limits (recursion depth, memory) are outside every claim",
}


def load_known() -> list[dict]:
    if not os.path.exists(KNOWN_FILE):
        return []
    with open(KNOWN_FILE) as f:
        data = json.load(f)
    return data.get("findings", [])


def match_known(f: Finding, known: list[dict]) -> dict | None:
    for k in known:
        if k.get("status") != "known":
            continue
        if k.get("rule") != f.rule:
            continue
        if k.get("function") not in (None, f.function):
            continue
        if k.get("construct") not in (None, f.construct):
            continue
        return k
    return None


def run_property(prop: str, rule_fn: Callable[[Ctx], None], tier: str, seed: int, root: str | None = None,
                 write_evidence: bool = True, quiet: bool = False) -> int:
    t0 = time.time()
    out = (lambda *a: None) if quiet else (lambda *a: print(*a))
    evidence_path = os.path.join(EVIDENCE_DIR, f"{prop}.json")
    errors: list[str] = []
    ctx = None
    try:
        repo = Repo(root)
        ctx = Ctx(repo, prop, tier, seed)
        rule_fn(ctx)
        if not ctx.obligations:
            raise AnalysisError("no obligations were produced")
    except AnalysisError as e:
        errors.append(str(e))
    except Exception:
        errors.append("internal error\n" + traceback.format_exc()[-2000:])
    if ctx is not None:
        for ob in ctx.obligations:
            if ob.error:
                errors.append(f"{ob.id}: {ob.error}" if not ob.error.startswith(ob.id) else ob.error)
            elif not ob.sites and not ob.findings and not errors:
                errors.append(f"{ob.id} matched zero sites (vacuous pass refused)")
    known = load_known()
    has_new = ctx is not None and any(match_known(f, known) is None for ob in ctx.obligations for f in ob.findings)
    if errors and not has_new:
        for e in errors:
            out(f"ANALYSIS-ERROR property={prop} {e}")
        if write_evidence:
            _write_error_evidence(evidence_path, prop, tier, seed, " | ".join(errors), time.time() - t0)
        return 2
    for e in errors:
        out(f"ANALYSIS-ERROR property={prop} {e}  (other obligations still decided; see below)")

    new: list[Finding] = []
    knownhits: list[tuple[Finding, dict]] = []
    for ob in ctx.obligations:
        for f in ob.findings:
            k = match_known(f, known)
            if k is not None:
                knownhits.append((f, k))
            else:
                new.append(f)

    n_ob = len(ctx.obligations)
    violated = {f.rule for f in new} | {f.rule for f, _ in knownhits}
    discharged = n_ob - len(violated)
    evaluations = sum(max(1, len(ob.sites)) for ob in ctx.obligations)
    nontrivial = len({ob.id for ob in ctx.obligations if ob.nontrivial and ob.sites})
    out(f"[{prop}] analysed {len(repo.modules)} units, {len(repo.funcs)} functions "
        f"(source digest {repo.digest()}); {n_ob} obligations, {evaluations} rule-site evaluations")
    for ob in ctx.obligations:
        st = "VIOLATED" if any(f in new for f in ob.findings) else ("known-finding" if ob.findings else ("analysis-error" if ob.error else "ok"))
        out(f"  {ob.id:<8} {ob.title:<34} sites={len(ob.sites):<3} {st}")
    for f, k in knownhits:
        out(f"KNOWN-FINDING: property={prop} {k.get('id', '')} {f.rule} {f.function}: {k.get('what', f.message)}")

    replay_dir = os.path.join(EVIDENCE_DIR, "replay")
    rc = 0
    for i, f in enumerate(new):
        rc = 1
        rp = os.path.join(replay_dir, f"{prop}-{i}.json")
        if write_evidence:
            os.makedirs(replay_dir, exist_ok=True)
            with open(rp, "w") as fh:
                json.dump(f.to_json(), fh, indent=1)
        out(f"  {f.file}:{f.line}: [{f.rule}] {f.function}: {f.message}")
        if f.detail.get("path"):
            out(f"      path: {f.detail['path']}")
        out(f"VIOLATION property={prop} replay={rp}")

    if write_evidence:
        samples = []
        for ob in ctx.obligations:
            s = {"obligation": f"{ob.id} {ob.title}", "sites": ob.sites[:4], "n_sites": len(ob.sites)}
            if ob.notes:
                s["notes"] = ob.notes[:4]
            if ob.findings:
                s["findings"] = [f.to_json() for f in ob.findings[:5]]
            samples.append(s)
        cov = {
            "explanation": (
                f"static analysis of {repo.root}/src/execnet (digest {repo.digest()}): {n_ob} obligations "
                f"evaluated at {evaluations} rule sites over {len(repo.funcs)} functions. Decides: {ctx.decides} "
                f"Does not decide: {ctx.not_decided}"
            ),
            "obligations": n_ob,
            "discharged": discharged,
            "evaluations": evaluations,
            "distinct_nontrivial": nontrivial,
            "rule": "an evaluation is one (obligation, site) pair; an obligation is non-trivial when its discharge "
                    "needed a path, guard, flow, lock-set or effect argument rather than a constant comparison",
            "samples": samples,
            "units": len(repo.modules),
            "functions": len(repo.funcs),
            "checker_cmd": f"/venv/bin/python check.py {prop} --tier {tier}",
            "trusted_base": ctx.trusted,
            "known_findings_reported": [k.get("id") for _f, k in knownhits],
            "analysis_errors": errors,
            "exhaustive": False,
            # what the normal form did on this tree (sa/flatten.py, sa/idioms.py, sa/records.py): rewrites are semantics-preserving
            "normal_form": {
                "records_desugared": getattr(repo, "records", {}),
                "idioms": getattr(repo, "idioms", {}),
                "rewrites": sorted({f"{a}: {b}" for (a, b) in repo.__dict__.get("inlined_helpers", [])})[:60],
                "helpers_absorbed": repo.__dict__.get("absorbed_helpers", []),
                "census": "sa/known_funcs.py (317 function qualnames of the tree the rules were confirmed on)",
            },
        }
        cov.update(ctx.extra)
        ev = {
            "property_id": prop,
            "tier": tier,
            "seed": seed,
            "level": "other",
            "coverage": cov,
            "assumptions": [ASSUMPTIONS.get(a, a) for a in ctx.assumptions],
            "wall_s": round(time.time() - t0, 3),
            "violations": len(new),
        }
        os.makedirs(EVIDENCE_DIR, exist_ok=True)
        with open(evidence_path, "w") as fh:
            json.dump(ev, fh, indent=1, default=str)
    if rc == 0:
        out(f"[{prop}] OK: {discharged}/{n_ob} obligations discharged"
            + (f", {len(knownhits)} known finding(s)" if knownhits else ""))
    return rc


def _write_error_evidence(path: str, prop: str, tier: str, seed: int, err: str, wall: float) -> None:
    os.makedirs(os.path.dirname(path), exist_ok=True)
    ev = {
        "property_id": prop, "tier": tier, "seed": seed, "level": "other",
        "coverage": {"explanation": "ANALYSIS-ERROR: the analysis could not run; no verdict. " + err,
                     "obligations": 0, "discharged": 0, "evaluations": 0, "distinct_nontrivial": 0,
                     "samples": [], "analysis_error": err},
        "assumptions": [], "wall_s": round(wall, 3), "violations": 0,
    }
    with open(path, "w") as fh:
        json.dump(ev, fh, indent=1)
