"""Variant catalogue for the sensitivity self-test (see selftest/run.py).

Each variant is one small edit of the *current* tree (exact-text anchor that must
occur once; otherwise the variant is skipped and counted).  kind="break": the
edit breaks the listed properties while the code still compiles; kind="preserve":
a behaviour-preserving refactoring that must not raise an alarm.
"""

GB = "src/execnet/gateway_base.py"
GW = "src/execnet/gateway.py"
IO = "src/execnet/gateway_io.py"
SO = "src/execnet/gateway_socket.py"
MU = "src/execnet/multi.py"
XS = "src/execnet/xspec.py"
RS = "src/execnet/rsync.py"
RR = "src/execnet/rsync_remote.py"
BO = "src/execnet/gateway_bootstrap.py"
SS = "src/execnet/script/socketserver.py"


def B(name, props, *edits):
    return {"name": name, "props": list(props), "kind": "break", "edits": list(edits)}


def P(name, props, *edits):
    return {"name": name, "props": list(props), "kind": "preserve", "edits": list(edits)}


VARIANTS = [
    # ------------------------------------------------------------------ C01 / C12
    B("int-lower-bound-dropped", ["C01", "C12"], (GB, "if FOUR_BYTE_INT_MIN <= i <= FOUR_BYTE_INT_MAX:", "if i <= FOUR_BYTE_INT_MAX:")),
    B("float-little-endian-writer", ["C12"], (GB, 'FLOAT_FORMAT = "!d"', 'FLOAT_FORMAT = "<d"')),
    B("buildtuple-builds-list", ["C01", "C12"], (GB, "self._load_collection(tuple)", "self._load_collection(list)")),
    B("load-true-pushes-1", ["C01", "C12"], (GB, "self.stack.append(True)", "self.stack.append(1)")),
    B("dict-sorted-items", ["C01", "C12"], (GB, "for key, value in d.items():", "for key, value in sorted(d.items()):")),
    B("setitem-order-swapped-writer", ["C01", "C12"], (GB, "        self._save(key)\n        self._save(value)\n        self._write(opcode.SETITEM)", "        self._save(value)\n        self._save(key)\n        self._write(opcode.SETITEM)")),
    B("dispatch-isinstance", ["C01"], (GB, "        tp = type(obj)\n        try:\n            dispatch = self._dispatch[tp]", "        tp = type(obj)\n        if isinstance(obj, bool):\n            tp = bool\n        try:\n            dispatch = self._dispatch[tp]")),
    B("closed-set-fence-removed", ["C01"], (GB, "if meth is None or tp not in self._serializable:", "if meth is None:")),
    B("send-streams-into-connection", ["C01"], (GB, "        self.gateway._send(Message.CHANNEL_DATA, self.id, dumps_internal(item))", "        data = BytesIO()\n        _Serializer(write=data.write).save(item)\n        self.gateway._send(Message.CHANNEL_DATA, self.id, data.getvalue())")),
    B("opcode-letter-changed", ["C12"], (GB, 'COMPLEX = b"T"', 'COMPLEX = b"U"')),
    B("int4-max-changed", ["C12"], (GB, "FOUR_BYTE_INT_MAX = 2147483647", "FOUR_BYTE_INT_MAX = 2147483646")),
    B("tuple-count-before-items", ["C01", "C12"], (GB, "        for item in tup:\n            self._save(item)\n        self._write(opcode.BUILDTUPLE)\n        self._write_int4(len(tup), \"tuple is too long\")", "        self._write(opcode.BUILDTUPLE)\n        self._write_int4(len(tup), \"tuple is too long\")\n        for item in tup:\n            self._save(item)")),
    B("py2string-ignores-switch", ["C12"], (GB, "        if self.py2str_as_py3str:\n            s: bytes | str = as_bytes.decode(\"latin-1\")\n        else:\n            s = as_bytes", "        s: bytes | str = as_bytes.decode(\"latin-1\")")),
    B("reconfigure-tuple-swapped", ["C12"], (GW, "self._strconfig = (py2str_as_py3str, py3str_as_py2str)", "self._strconfig = (py3str_as_py2str, py2str_as_py3str)")),
    B("loads-default-flipped", ["C12"], (GB, "def loads(\n    bytestring: bytes, py2str_as_py3str: bool = False, py3str_as_py2str: bool = False", "def loads(\n    bytestring: bytes, py2str_as_py3str: bool = True, py3str_as_py2str: bool = False")),
    B("version-gate-dropped", ["C12"], (GB, "            if ver != DUMPFORMAT_VERSION:\n                raise LoadError(\"wrong dumpformat version %r\" % ver)", "            pass")),
    P("write-merged", ["C01", "C12"], (GB, "        self._write(opcode.FLOAT)\n        self._write(struct.pack(FLOAT_FORMAT, flt))", "        self._write(opcode.FLOAT + struct.pack(FLOAT_FORMAT, flt))")),
    P("helper-inlined", ["C01", "C12"], (GB, "        self._write(opcode.BYTES)\n        self._write_byte_sequence(bytes_)", "        self._write(opcode.BYTES)\n        self._write_int4(len(bytes_), \"string is too long\")\n        self._write(bytes_)")),
    P("locals-renamed-save-list", ["C01", "C12"], (GB, "        for i, item in enumerate(L):\n            self._write_setitem(i, item)", "        for index, element in enumerate(L):\n            self._write_setitem(index, element)")),
    # ------------------------------------------------------------------ C13
    B("decode-unguarded", ["C13"], (GB, "            return as_bytes.decode(\"utf-8\")\n        except UnicodeDecodeError:\n            raise LoadError(\"string is not valid utf-8\") from None", "            return as_bytes.decode(\"utf-8\")\n        except UnicodeEncodeError:\n            raise LoadError(\"string is not valid utf-8\") from None")),
    B("setitem-guard-weakened", ["C13"], (GB, "if len(self.stack) < 3:", "if len(self.stack) < 2:")),
    B("exact-read-check-dropped", ["C13"], (GB, "        if len(data) != numbytes:\n            raise EOFError(\"expected %d bytes, got %d\" % (numbytes, len(data)))\n        return data", "        return data")),
    B("channel-guard-assert", ["C13"], (GB, "        if self.channelfactory is None:\n            raise LoadError(\"cannot load a channel without a gateway\")", "        assert self.channelfactory is not None")),
    B("longint-unguarded", ["C13"], (GB, "        try:\n            self.stack.append(int(s))\n        except ValueError:\n            raise LoadError(\"invalid long integer %r\" % s[:20]) from None", "        self.stack.append(int(s))")),
    B("stop-without-stack-check", ["C13"], (GB, "            if len(self.stack) != 1:\n                raise LoadError(\"internal unserialization error\") from None\n            return self.stack.pop(0)", "            return self.stack.pop()")),
    B("loader-evals", ["C13"], (GB, "        s = self._read_byte_string()\n        self.stack.append(s)", "        s = self._read_byte_string()\n        self.stack.append(eval(s) if s.startswith(b\"!\") else s)")),
    P("per-site-try-instead-of-helper", ["C13"], (GB, "        self.stack.append(self._decode(self._read_byte_string()))", "        raw = self._read_byte_string()\n        try:\n            text = raw.decode(\"utf-8\")\n        except UnicodeDecodeError:\n            raise LoadError(\"string is not valid utf-8\") from None\n        self.stack.append(text)")),
    # ------------------------------------------------------------------ C14 / C09
    B("complete-not-in-finally", ["C14"], (GB, "            channel.close()\n        finally:\n            if self._executetask_complete is not None:", "            channel.close()\n        except ZeroDivisionError:\n            raise\n        else:\n            if self._executetask_complete is not None:")),
    B("clear-before-wait", ["C14"], (GB, "            if not self._executetask_complete.wait(timeout=1):", "            self._executetask_complete.clear()\n            if not self._executetask_complete.wait(timeout=1):")),
    B("wait-zero-timeout", ["C14"], (GB, "self._executetask_complete.wait(timeout=1)", "self._executetask_complete.wait(timeout=0)")),
    B("event-not-initially-set", ["C14"], (GB, "            self._executetask_complete.set()\n        trace(\"spawning receiver thread\")", "        trace(\"spawning receiver thread\")")),
    B("main-thread-arm-falls-through", ["C14", "C09"], (GB, "                primary_thread_task_ready.set()\n                return True\n        return False", "                primary_thread_task_ready.set()\n        return False")),
    P("wait-result-bound-first", ["C14"], (GB, "            if not self._executetask_complete.wait(timeout=1):\n                channel.close(MAIN_THREAD_ONLY_DEADLOCK_TEXT)\n                return", "            previous_done = self._executetask_complete.wait(timeout=1)\n            if not previous_done:\n                channel.close(MAIN_THREAD_ONLY_DEADLOCK_TEXT)\n                return")),
    B("pool-lock-removed-perform-spawn", ["C09"], (GB, "        reply.run()\n        with self._running_lock:\n            self._running.remove(reply)", "        reply.run()\n        if True:\n            self._running.remove(reply)")),
    B("waitall-wait-inside-lock", ["C09"], (GB, "            self._waitall_events.append(my_waitall_event)\n        return my_waitall_event.wait(timeout=timeout)", "            self._waitall_events.append(my_waitall_event)\n            return my_waitall_event.wait(timeout=timeout)")),
    B("result-ready-only-on-success", ["C09"], (GB, "                self._result = func(*args, **kwargs)\n            except BaseException as exc:\n                self._exc = exc\n        finally:\n            self._result_ready.set()\n            self.running = False", "                self._result = func(*args, **kwargs)\n                self._result_ready.set()\n            except BaseException as exc:\n                self._exc = exc\n        finally:\n            self.running = False")),
    B("shutdown-test-after-add", ["C09"], (GB, "            if self._shuttingdown:\n                raise ValueError(\"pool is shutting down\")\n            self._running.add(reply)", "            self._running.add(reply)\n            if self._shuttingdown:\n                raise ValueError(\"pool is shutting down\")")),
    B("mailbox-guard-removed", ["C09"], (GB, "            if ready is not None and not ready.is_set():", "            if ready is not None:")),
    B("loop-break-on-shutdown-first", ["C09"], (GB, "                if reply is self._primary_thread_task:\n                    if self._shuttingdown:\n                        break\n                    primary_thread_task_ready.clear()", "                if self._shuttingdown:\n                    break\n                if reply is self._primary_thread_task:\n                    primary_thread_task_ready.clear()")),
    P("with-as-acquire-release", ["C09"], (GB, "        with self._running_lock:\n            self._shuttingdown = True\n            ready = self._primary_thread_task_ready\n            # only wake up an idle primary thread: a set event means that\n            # an accepted task is pending or running, it must not be dropped\n            if ready is not None and not ready.is_set():\n                self._primary_thread_task = None\n                ready.set()", "        self._running_lock.acquire()\n        try:\n            self._shuttingdown = True\n            ready = self._primary_thread_task_ready\n            if ready is not None and not ready.is_set():\n                self._primary_thread_task = None\n                ready.set()\n        finally:\n            self._running_lock.release()")),
    # ------------------------------------------------------------------ C02 / C03 / C04 / C07 / C10
    B("receivelock-removed-setcallback", ["C02", "C10"], (GB, "        with self.gateway._receivelock:\n            if self._items is None:", "        if True:\n            if self._items is None:")),
    B("lifo-queue", ["C02"], (GB, "self._items = self.gateway.execmodel.queue.Queue()", "self._items = self.gateway.execmodel.queue.LifoQueue()")),
    B("last-message-handled-as-close", ["C02"], (GB, "gateway._channelfactory._local_close(message.channelid, sendonly=True)", "gateway._channelfactory._local_close(message.channelid)")),
    B("send-twice", ["C02"], (GB, "        self.gateway._send(Message.CHANNEL_DATA, self.id, dumps_internal(item))", "        payload = dumps_internal(item)\n        self.gateway._send(Message.CHANNEL_DATA, self.id, payload)\n        if len(payload) > 1 << 20:\n            self.gateway._send(Message.CHANNEL_DATA, self.id, payload)")),
    B("requeue-dropped-receive", ["C03"], (GB, "            itemqueue.put(x)  # for other receivers\n", "")),
    B("receiveclosed-set-dropped", ["C03"], (GB, "            channel._receiveclosed.set()\n", "            pass\n")),
    B("executetask-close-inside-try", ["C03", "C06"], (GB, "                    channel.close(errortext)\n                    return\n            channel.close()", "                    channel.close(errortext)\n                    return\n            if call_name:\n                channel.close()")),
    B("send-closed-check-dropped", ["C03"], (GB, "        if self.isclosed():\n            raise OSError(f\"cannot send to {self!r}\")\n", "")),
    B("epilogue-terminate-before-finish", ["C04"], (GB, "        with self._receivelock:\n            self._channelfactory._finished_receiving()\n        log(\"terminating execution\")\n        self._terminate_execution()", "        log(\"terminating execution\")\n        self._terminate_execution()\n        with self._receivelock:\n            self._channelfactory._finished_receiving()")),
    B("eof-handler-reraises", ["C04", "C11"], (GB, "            log(\"EOF without prior gateway termination message\")\n            self._error = exc", "            log(\"EOF without prior gateway termination message\")\n            self._error = exc\n            raise")),
    B("send-valueerror-not-mapped", ["C04"], (GB, "        except (OSError, ValueError) as e:\n            self._trace(\"failed to send\", message, e)", "        except OSError as e:\n            self._trace(\"failed to send\", message, e)")),
    B("finished-flag-unlocked", ["C04"], (GB, "        with self._writelock:\n            self.finished = True", "        self.finished = True")),
    B("socket-eof-bare", ["C04", "C16"], (SO, "raise EOFError(\"expected %d bytes, got %d\" % (numbytes, len(buf)))", "raise EOFError")),
    B("callback-error-text-not-wrapped", ["C07"], (GB, "self._local_close(id, RemoteError(errortext))", "self._local_close(id, errortext)")),
    B("callback-try-removed", ["C07", "C04"], (GB, "            try:\n                data = loads_internal(data, channel, strconfig)\n                callback(data)  # even if channel may be already closed\n            except Exception as exc:", "            exc = None\n            data = loads_internal(data, channel, strconfig)\n            callback(data)  # even if channel may be already closed\n            if exc is not None:")),
    B("endmarker-callback-uncontained", ["C07", "C04", "C11"], (GB, "                try:\n                    callback(endmarker)\n                except Exception as exc:", "                exc = None\n                callback(endmarker)\n                if exc is not None:")),
    B("close-error-not-sent", ["C07"], (GB, "                self.gateway._send(\n                    Message.CHANNEL_CLOSE_ERROR, id, dumps_internal(errortext)\n                )\n", "")),
    B("remoteerror-not-popped", ["C07"], (GB, "return self._remoteerrors.pop(0)", "return self._remoteerrors[0]")),
    B("finished-receiving-unlocked", ["C10"], (GB, "        with self._receivelock:\n            self._channelfactory._finished_receiving()", "        self._channelfactory._finished_receiving()")),
    B("items-none-after-drain", ["C10"], (GB, "            items = self._items\n            self._items = None\n            while 1:", "            items = self._items\n            while 1:")),
    B("late-binding-closure", ["C10"], (MU, "def putreceived(obj, channel: Channel = ch) -> None:\n                    self._queue.put((channel, obj))", "def putreceived(obj) -> None:\n                    self._queue.put((ch, obj))")),
    # ------------------------------------------------------------------ C08 / C16 / C19
    B("header-format-one-side", ["C08"], (GB, "header = struct.pack(\"!bii\", self.msgcode, self.channelid, len(self.data))", "header = struct.pack(\"!bIi\", self.msgcode, self.channelid, len(self.data))")),
    B("socket-write-lock-removed", ["C08"], (SO, "        with self._writelock:\n            self.sock.sendall(data)", "        self.sock.sendall(data)")),
    B("socket-read-if-instead-of-while", ["C08", "C04"], (SO, "while len(buf) < numbytes:", "if len(buf) < numbytes:")),
    B("forwarder-strips", ["C08", "C16"], (IO, "        sub_io.write(data)", "        sub_io.write(data.strip())")),
    B("control-kill-without-reply", ["C16"], (IO, "            sub_io.kill()\n            control_chan.send(None)", "            sub_io.kill()")),
    B("channelfile-slice-off-by-one", ["C19", "C16"], (GB, "self._buffer = self._buffer[n:]", "self._buffer = self._buffer[n + 1 :]")),
    B("channelfile-prepend", ["C19", "C16"], (GB, "self._buffer += cast(str, self.channel.receive())", "self._buffer = cast(str, self.channel.receive()) + self._buffer")),
    B("channelfile-write-twice", ["C19"], (GB, "    def write(self, out: bytes) -> None:\n        self.channel.send(out)", "    def write(self, out: bytes) -> None:\n        for piece in (out[:1], out[1:]):\n            self.channel.send(piece)")),
    B("channelfile-close-ignores-proxyclose", ["C19"], (GB, "        if self._proxyclose:\n            self.channel.close()", "        self.channel.close()")),
    P("socket-lock-in-send", ["C08"], (SO, "        with self._writelock:\n            self.sock.sendall(data)", "        self.sock.sendall(data)"), (GB, "        try:\n            message.to_io(self._io)\n            self._trace(\"sent\", message)", "        try:\n            with self._channelfactory._writelock:\n                message.to_io(self._io)\n            self._trace(\"sent\", message)")),
    # ------------------------------------------------------------------ C05 / C20 / C11
    B("termreply-get-without-timeout", ["C05"], (MU, "termreply.get(timeout=timeout)", "termreply.get()")),
    B("killfunc-removed", ["C05"], (MU, "        except OSError:\n            killfunc()", "        except OSError:\n            pass")),
    B("waitall-unbounded", ["C05"], (MU, "workerpool.waitall(timeout=wait_timeout)", "workerpool.waitall()")),
    B("explicit-id-check-dropped", ["C05", "C20"], (MU, "        elif spec.id in self:\n            raise ValueError(f\"already have gateway with id {spec.id!r}\")\n", "")),
    B("exit-all-regardless-of-vias", ["C05"], (MU, "                if gw.id not in vias:\n                    gw.exit()", "                gw.exit()")),
    P("wait-timeout-inline", ["C05"], (MU, "            reply.waitfinish(timeout=wait_timeout)", "            reply.waitfinish(timeout=None if timeout is None else timeout * 2)")),
    B("env-dup-test-dropped", ["C20"], (XS, "                if key[4:] in self.env:\n                    raise ValueError(f\"duplicate key: {key!r} in {string!r}\")\n", "")),
    B("hash-by-identity", ["C20"], (XS, "return hash(self._spec)", "return id(self)")),
    B("value-slice-includes-equals", ["C20"], (XS, "key, value = keyvalue[:i], keyvalue[i + 1 :]", "key, value = keyvalue[:i], keyvalue[i:]")),
    B("autoid-increment-outside-lock", ["C20"], (MU, "            with self._autoidlock:\n                id = \"gw\" + str(self._autoidcounter)\n                self._autoidcounter += 1\n", "            id = \"gw\" + str(self._autoidcounter)\n            self._autoidcounter += 1\n            with self._autoidlock:\n")),
    B("contains-consults-other-list", ["C20"], (MU, "        for gw in self._gateways:\n            if gw == key or gw.id == key:\n                return gw", "        for gw in self._gateways + self._gateways_to_join:\n            if gw == key or gw.id == key:\n                return gw")),
    B("ladder-second-wait-unbounded", ["C11"], (GB, "if not self._execpool.waitall(10.0):", "if not self._execpool.waitall():")),
    B("ladder-exit-removed", ["C11"], (GB, "                os._exit(1)", "                pass")),
    B("ladder-budget-too-long", ["C11"], (GB, "if not self._execpool.waitall(10.0):", "if not self._execpool.waitall(60.0):")),
    B("nondaemon-threads", ["C11"], (GB, "        import _thread\n\n        _thread.start_new_thread(func, args)", "        import threading\n\n        threading.Thread(target=func, args=args).start()")),
    # ------------------------------------------------------------------ C06 / C15 / C17 / C18
    B("executing-reset-not-in-finally", ["C06"], (GB, "                finally:\n                    channel._executing = False\n                    self._trace(\"execution finished\")", "                except ZeroDivisionError:\n                    raise\n                else:\n                    channel._executing = False\n                    self._trace(\"execution finished\")")),
    B("name-binding-dropped", ["C06"], (GB, '{"channel": channel, "__name__": "__channelexec__"}', '{"channel": channel}')),
    B("call-without-channel", ["C06"], (GB, "function(channel, **kwargs)", "function(**kwargs)")),
    B("kwargs-check-after-send", ["C06"], (GW, "        if not call_name and kwargs:\n            raise TypeError(\"can't pass kwargs to non-function remote_exec\")\n\n        channel = self.newchannel()", "        channel = self.newchannel()\n        if not call_name and kwargs:\n            raise TypeError(\"can't pass kwargs to non-function remote_exec\")\n")),
    B("stdout-not-redirected", ["C06"], (GB, "        fd = os.open(devnull, os.O_WRONLY)\n        os.dup2(fd, 1)\n", "        fd = os.open(devnull, os.O_WRONLY)\n")),
    B("popen2io-roles-swapped", ["C06"], (GB, "io = Popen2IO(stdout, stdin, execmodel)", "io = Popen2IO(stdin, stdout, execmodel)")),
    B("base-imports-sibling", ["C15"], (GB, "from typing import overload\n", "from typing import overload\n\nfrom .xspec import XSpec  # noqa\n")),
    B("socketio-uses-hostnotfound", ["C15"], (SO, "            sys.stderr.write(\"WARNING: cannot set socketoption\")", "            sys.stderr.write(\"WARNING: cannot set socketoption %s\" % HostNotFound)")),
    B("gateway-io-runtime-xspec", ["C15"], (IO, "    spec = cast(\"XSpec\", PseudoSpec(proxy_channelX.receive()))", "    spec = cast(XSpec, PseudoSpec(proxy_channelX.receive()))")),
    B("bootstrap-fragment-foreign-helper", ["C15"], (BO, "            \"io = init_popen_io(execmodel)\",", "            \"io = init_popen_io(execmodel); check_version(io)\",")),
    B("standalone-import-unconditional", ["C15"], (SS, "    try:\n        from execnet.gateway_base import get_execmodel\n    except ImportError:\n        # stand-alone usage without an execnet installation: the bootstrap\n        # source sent by the initiator creates the execmodel itself\n        execmodel = None\n    else:\n        execmodel = get_execmodel(\"thread\")", "    from execnet.gateway_base import get_execmodel\n\n    execmodel = get_execmodel(\"thread\")")),
    B("execmodel-injected-as-none", ["C15"], (SS, '    g = {"clientsock": clientsock, "address": address}\n    if execmodel is not None:\n        g["execmodel"] = execmodel', '    g = {"clientsock": clientsock, "address": address, "execmodel": execmodel}')),
    P("execmodel-injected-when-truthy", ["C15"], (SS, "    if execmodel is not None:\n        g[", "    if execmodel:\n        g[")),
    B("setitem-error-formats-bare-key", ["C13"], (GB, 'raise LoadError("invalid list index %r" % (key,))', 'raise LoadError("invalid list index %r" % key)')),
    P("setitem-error-fstring", ["C13"], (GB, 'raise LoadError("invalid list index %r" % (key,))', 'raise LoadError(f"invalid list index {key!r}")')),
    B("shutdown-flag-sampled-before-lock", ["C09", "C11"], (GB, "            # we are concurrent with trigger_shutdown and spawn\n            with self._running_lock:", "            shuttingdown = self._shuttingdown\n            with self._running_lock:"), (GB, "                    if self._shuttingdown:\n                        break\n                    primary_thread_task_ready.clear()", "                    if shuttingdown:\n                        break\n                    primary_thread_task_ready.clear()")),
    B("termkill-pairs-late-bound-lambda", ["C05", "C16"], (MU, "(partial(join_wait, gw), partial(kill, gw))", "(lambda: join_wait(gw), lambda: kill(gw))")),
    P("termkill-pairs-default-arg-lambda", ["C05", "C16"], (MU, "(partial(join_wait, gw), partial(kill, gw))", "(lambda gw=gw: join_wait(gw), lambda gw=gw: kill(gw))")),
    B("register-tests-object-not-id", ["C20"], (MU, "        assert gateway.id not in self\n", "        assert gateway not in self\n")),
    P("register-tests-id-with-if", ["C20"], (MU, "        assert gateway.id not in self\n", "        if gateway.id in self:\n            raise ValueError(f\"already have gateway with id {gateway.id!r}\")\n")),
    B("reader-eof-closes-channel-directly", ["C19"], (GB, "        except EOFError:\n            self.close()\n        if self._buffer is None:", "        except EOFError:\n            self.channel.close()\n        if self._buffer is None:")),
    P("reader-eof-inlined-proxyclose", ["C19"], (GB, "        except EOFError:\n            self.close()\n        if self._buffer is None:", "        except EOFError:\n            if self._proxyclose:\n                self.channel.close()\n        if self._buffer is None:")),
    B("linkbase-prefix-without-separator", ["C17"], (RS, "            and not relpath.startswith(os.pardir + os.sep)", "            and not relpath.startswith(os.pardir)")),
    P("linkbase-first-component-test", ["C17"], (RS, "            and not relpath.startswith(os.pardir + os.sep)", "            and relpath.split(os.sep)[0] != os.pardir")),
    B("ack-tag-renamed-remote-only", ["C17"], (RR, 'channel.send(("ack", path[len(destdir) + 1 :]))', 'channel.send(("acked", path[len(destdir) + 1 :]))')),
    B("stat-order-sender-only", ["C17"], (RS, "self._broadcast((st.st_mode, st.st_mtime, st.st_size))", "self._broadcast((st.st_mtime, st.st_mode, st.st_size))")),
    B("delete-guard-removed", ["C17"], (RR, '            if options.get("delete"):\n                for othername in os.listdir(path):', "            if True:\n                for othername in os.listdir(path):")),
    B("file-chmod-or-0700", ["C17"], (RR, "                        os.chmod(path, msg_mode)\n", "                        os.chmod(path, msg_mode | 0o700)\n")),
    B("isabs-guard-removed", ["C17"], (RS, "        if os.path.isabs(linkpoint):", "        if True:")),
    B("checksum-comparison-inverted", ["C17"], (RS, "if checksum is not None and checksum == md5(data).digest():", "if checksum is not None and checksum != md5(data).digest():")),
    P("rsync-locals-renamed", ["C17"], (RR, "                    msg_mode, msg_mtime, msg_size = msg\n                    if msg_size != st.st_size:\n                        pass\n                    elif msg_mtime != st.st_mtime:", "                    msg_mode, msg_mtime, msg_size = msg\n                    if msg_size != st.st_size:\n                        pass  # size differs: always request\n                    elif msg_mtime != st.st_mtime:")),
    B("list-done-unguarded-table-read", ["C17"], (RS, "self._to_send.get(channel, ())", "self._to_send[channel]")),
    P("list-done-guarded-by-membership", ["C17"], (RS, "            s = sum([self._paths[i] for i in self._to_send.get(channel, ())])", "            s = 0\n            if channel in self._to_send:\n                s = sum([self._paths[i] for i in self._to_send[channel]])")),
    B("id-step-one", ["C18"], (GB, "                self.count += 2", "                self.count += 1")),
    B("worker-startcount-one", ["C18"], (GB, "WorkerGateway(io=io, id=id, _startcount=2).serve()", "WorkerGateway(io=io, id=id, _startcount=1).serve()")),
    B("allocation-outside-lock", ["C18"], (GB, "        with self._writelock:\n            if self.finished:\n                raise OSError(f\"connection already closed: {self.gateway}\")\n            if id is None:\n                id = self.count\n                self.count += 2", "        if id is None:\n            id = self.count\n            self.count += 2\n        with self._writelock:\n            if self.finished:\n                raise OSError(f\"connection already closed: {self.gateway}\")")),
    B("strong-channel-dict", ["C18"], (GB, "        self._channels: weakref.WeakValueDictionary[int, Channel] = (\n            weakref.WeakValueDictionary()\n        )", "        self._channels: dict[int, Channel] = {}")),
    B("callbacks-pop-dropped", ["C18", "C10"], (GB, "        item = self._callbacks.pop(id, None)", "        item = self._callbacks.get(id, None)")),
]
