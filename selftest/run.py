"""Thorough tier: sensitivity self-test of the checker.

For the property under test, every applicable *variant* of /repo's current
source is built in a scratch directory (fresh mkdtemp outside /repo and
/verif, removed afterwards) and the property's rules are re-run on it,
in-process, in parallel:

  * breaking variants  (textual/AST edits of one function, and the confirmed
    seeded patches under /verif/seeded/)   -> the check must report a violation
  * preserving variants (behaviour-preserving refactorings)         -> must stay silent

The verdict of the thorough command stays the verdict about /repo itself; the
self-test result is *evidence of sensitivity* written into the evidence file
(`selftest` key) and printed.  A miss is reported as ANALYSIS-WEAK, never as a
violation.  A variant whose anchor text is absent in the current tree is
skipped and counted.
"""

from __future__ import annotations

import glob
import importlib
import json
import os
import shutil
import subprocess
import sys
import tempfile
from concurrent.futures import ProcessPoolExecutor

HERE = os.path.dirname(os.path.dirname(os.path.abspath(__file__)))
if HERE not in sys.path:
    sys.path.insert(0, HERE)


def _seed_variants(prop: str):
    out = []
    for d in sorted(glob.glob(os.path.join(HERE, "seeded", "*"))):
        mp = os.path.join(d, "meta.json")
        if not os.path.exists(mp):
            continue
        try:
            meta = json.load(open(mp))
        except Exception:
            continue
        kind = meta.get("kind", "break")
        targets = meta.get("expected_to_fire", [meta.get("property")]) if kind == "break" else meta.get("must_stay_silent", [])
        if prop in targets:
            out.append({"name": "seed:" + os.path.basename(d), "kind": kind, "patch": os.path.join(d, "patch.diff")})
    return out


def _apply(variant: dict, root: str) -> bool:
    tmp_src = os.path.join(root, "src")
    if "patch" in variant:
        r = subprocess.run(["patch", "-p1", "-s", "-f", "-i", variant["patch"]], cwd=root, capture_output=True, text=True)
        return r.returncode == 0
    for (rel, old, new) in variant["edits"]:
        p = os.path.join(root, rel)
        if not os.path.exists(p):
            return False
        s = open(p).read()
        if s.count(old) != 1:
            return False
        open(p, "w").write(s.replace(old, new))
    return True


def _run_one(args):
    prop, variant, repo_root = args
    from sa.index import Repo
    from sa.report import Ctx, load_known, match_known

    tmp = tempfile.mkdtemp(prefix="verif-selftest-")
    try:
        shutil.copytree(os.path.join(repo_root, "src"), os.path.join(tmp, "src"))
        if not _apply(variant, tmp):
            return {"name": variant["name"], "kind": variant["kind"], "status": "skipped (anchor absent)"}
        # the variant must still compile
        for dp, _dn, fns in os.walk(os.path.join(tmp, "src")):
            for fn in fns:
                if fn.endswith(".py"):
                    try:
                        compile(open(os.path.join(dp, fn)).read(), fn, "exec", dont_inherit=True)
                    except SyntaxError:
                        return {"name": variant["name"], "kind": variant["kind"], "status": "skipped (variant does not compile)"}
        known = load_known()
        fired, errors = [], []
        try:
            ctx = Ctx(Repo(tmp), prop, "quick", 0)
            importlib.import_module(f"sa.rules.{prop}").check(ctx)
            for ob in ctx.obligations:
                if ob.error:
                    errors.append(f"{ob.id}: {ob.error[:100]}")
                for f in ob.findings:
                    if match_known(f, known) is None:
                        fired.append(f.rule)
        except Exception as e:  # noqa: BLE001
            errors.append(f"{type(e).__name__}: {str(e)[:120]}")
        fired = sorted(set(fired))
        if variant["kind"] == "break":
            status = "fired" if fired else ("analysis-error" if errors else "MISSED")
        else:
            status = "silent" if not fired and not errors else ("FALSE-ALARM" if fired else "analysis-error")
        return {"name": variant["name"], "kind": variant["kind"], "status": status, "rules": fired, "errors": errors[:2]}
    finally:
        shutil.rmtree(tmp, ignore_errors=True)


def run_selftest(prop: str, seed: int, repo_root: str) -> int:
    from selftest.variants import VARIANTS

    todo = [v for v in VARIANTS if prop in v["props"]] + _seed_variants(prop)
    if not todo:
        print(f"[{prop}] self-test: no variants registered")
        return 0
    # the seed only orders the sample
    import random

    rnd = random.Random(seed)
    rnd.shuffle(todo)
    with ProcessPoolExecutor(max_workers=min(16, len(todo))) as ex:
        results = list(ex.map(_run_one, [(prop, v, repo_root) for v in todo]))
    nb = [r for r in results if r["kind"] == "break" and not r["status"].startswith("skipped")]
    npv = [r for r in results if r["kind"] != "break" and not r["status"].startswith("skipped")]
    fired = [r for r in nb if r["status"] == "fired"]
    silent = [r for r in npv if r["status"] == "silent"]
    skipped = [r for r in results if r["status"].startswith("skipped")]
    print(f"[{prop}] self-test: breaking variants fired {len(fired)}/{len(nb)}; preserving variants silent {len(silent)}/{len(npv)}; skipped {len(skipped)}")
    for r in results:
        if r["status"] in ("MISSED", "FALSE-ALARM", "analysis-error"):
            print(f"ANALYSIS-WEAK property={prop} variant={r['name']} ({r['kind']}): {r['status']} {r.get('rules') or ''} {r.get('errors') or ''}")
    # fold into the evidence file
    ev_path = os.path.join(os.environ.get("VERIF_EVIDENCE_DIR", os.path.join(HERE, "evidence")), f"{prop}.json")
    try:
        ev = json.load(open(ev_path))
        ev["coverage"]["selftest"] = {
            "breaking_fired": len(fired), "breaking_total": len(nb), "preserving_silent": len(silent), "preserving_total": len(npv),
            "skipped": len(skipped), "results": sorted(results, key=lambda r: r["name"]),
            "note": "sensitivity of the checker on scratch-copy variants of the current tree; not part of the verdict",
        }
        json.dump(ev, open(ev_path, "w"), indent=1, default=str)
    except Exception as e:  # noqa: BLE001
        print(f"[{prop}] self-test: could not update evidence: {e}")
    return 0
